// C06, second engine: two real threads on a small ring under ThreadSanitizer. FIFO oracle + race reports.
// usage: c06_tsan <seconds> <seed> <outdir>
#include <rtosc/thread-link.h>
#include <rtosc/rtosc.h>
#include <thread>
#include <atomic>
#include <chrono>
#include <cstdio>
#include <cstring>
#include <cstdlib>
#include <string>
int main(int argc, char **argv) {
  double secs = argc > 1 ? atof(argv[1]) : 3;
  unsigned seed = argc > 2 ? (unsigned)atoi(argv[2]) : 1;
  std::string outdir = argc > 3 ? argv[3] : ".";
  rtosc::ThreadLink tl(64, 4);
  std::atomic<bool> stop{false};
  long written = 0, readn = 0, bad = 0;
  std::string err;
  std::thread w([&] {
    unsigned s = seed * 2654435761u + 1;
    char payload[64];
    for (int seq = 1; !stop.load(std::memory_order_relaxed); seq++) {
      s = s * 1664525u + 1013904223u;
      int L = 3 + (int)((s >> 16) % 12) * 4;   // message sizes 16..60
      for (int i = 0; i < L; i++) payload[i] = (char)('a' + (seq * 7 + i) % 26);
      payload[L] = 0;
      tl.write("/m", "is", seq, payload);
      written++;
      if ((s >> 28) == 0) std::this_thread::yield();
    }
  });
  std::thread r([&] {
    int last = 0;
    auto t0 = std::chrono::steady_clock::now();
    while (true) {
      if (tl.hasNext()) {
        const char *m = tl.read();
        if (strcmp(m, "/m") || strcmp(rtosc_argument_string(m), "is")) { bad++; err = "read returned a malformed message"; break; }
        int seq = rtosc_argument(m, 0).i;
        const char *p = rtosc_argument(m, 1).s;
        if (seq <= last) { bad++; err = "sequence numbers not increasing (duplicate or reordered)"; break; }
        for (int i = 0; p[i]; i++) if (p[i] != (char)('a' + (seq * 7 + i) % 26)) { bad++; err = "payload torn/corrupted"; break; }
        if (bad) break;
        last = seq;
        readn++;
      }
      if ((readn & 1023) == 0 && std::chrono::duration<double>(std::chrono::steady_clock::now() - t0).count() > secs) break;
    }
    stop = true;
  });
  w.join(); r.join();
  FILE *f = fopen((outdir + "/extra-tsan.json").c_str(), "w");
  if (f) { fprintf(f, "{\"tsan_stress\": {\"seconds\": %g, \"messages_written\": %ld, \"messages_read_and_verified\": %ld, \"oracle_failures\": %ld}}\n", secs, written, readn, bad); fclose(f); }
  if (bad) { printf("TSAN-STRESS-FAIL: %s\n", err.c_str()); return 1; }
  printf("tsan stress: %ld written, %ld read and verified\n", written, readn);
  return 0;
}
