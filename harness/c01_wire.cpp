// C01 - OSC 1.0 wire format: three constructors vs. reference encoder; accessors vs. generated values.
#include "common/msggen.hpp"
#include <memory>

using mg::Msg;
using refosc::Val;

struct Case {
  Msg m;
  // second message written over the first in the same storage (same address and tag count, other tags / sizes),
  // and the order in which arguments are read by index from each: accessor results may not depend on earlier reads
  bool reuse = false;
  Msg m2;
  std::vector<int> order1, order2;
  template <class A> void io(A &a) { a(m); if (a.more()) a(reuse)(m2)(order1)(order2); }   // optional trailing fields (older case files end after m)
  std::string describe() const {
    std::string d = m.describe();
    if (reuse) {
      d += " | then in the same storage: " + m2.describe() + " | read order";
      for (int i : order1) d += " " + std::to_string(i);
      d += " /";
      for (int i : order2) d += " " + std::to_string(i);
    }
    return d;
  }
};

const char *vf_property() { return "C01"; }
void vf_init() {}

Case vf_generate() {
  Case c;
  c.m = mg::gen_msg(40, 4200, 64);
  if (!c.m.vals.empty() && vf::chance(50)) {
    c.reuse = true;
    c.m2.address = c.m.address;
    for (char t : c.m.tags) c.m2.tags += (t == '[' || t == ']' || vf::chance(50)) ? t : mg::TAGS17[vf::pickn(15)];
    mg::fill_vals(c.m2, 300);
    auto order = [&](size_t n) {
      std::vector<int> o;
      switch (vf::pickn(4)) {
        case 0: for (size_t i = 0; i < n; i++) o.push_back((int)i); break;
        case 1: for (size_t i = n; i-- > 0;) o.push_back((int)i); break;
        case 2: o.push_back((int)n - 1); break;
        default: { int k = vf::pick<int>(1, (int)std::min<size_t>(2 * n, 24)); for (int i = 0; i < k; i++) o.push_back(vf::pickn((int)n)); }
      }
      return o;
    };
    c.order1 = order(c.m.vals.size());
    c.order2 = order(c.m2.vals.size());
  }
  return c;
}

static std::string hexs(const std::string &s, size_t max = 48) {
  std::string o;
  char b[4];
  for (size_t i = 0; i < s.size() && i < max; i++) { snprintf(b, sizeof b, "%02x", (unsigned char)s[i]); o += b; }
  if (s.size() > max) o += "..";
  return o;
}

static std::string cmp_bytes(const char *what, const std::string &ref, const char *buf, size_t ret) {
  if (ret != ref.size()) return std::string(what) + ": returned length " + std::to_string(ret) + " != reference " + std::to_string(ref.size());
  if (memcmp(buf, ref.data(), ref.size())) {
    size_t i = 0;
    while (buf[i] == ref[i]) i++;
    return std::string(what) + ": bytes differ from reference at offset " + std::to_string(i) + " ref=" + hexs(ref) + " got=" + hexs(std::string(buf, ref.size()));
  }
  return "";
}

static std::string check_val(const char *what, size_t idx, const Val &v, char type, const rtosc_arg_t &a, const char *buf, size_t n) {
  std::string w = std::string(what) + " #" + std::to_string(idx) + " ('" + v.t + "'): ";
  if (type != v.t) return w + "type '" + std::string(1, type) + "'";
  switch (v.t) {
    case 'i': case 'c': case 'r': case 'f':
      if ((uint32_t)a.i != (uint32_t)v.u) return w + "value bits differ";
      break;
    case 'h': case 't': case 'd':
      if (a.t != v.u) return w + "64-bit value bits differ";
      break;
    case 'm': {
      uint32_t got = ((uint32_t)a.m[0] << 24) | ((uint32_t)a.m[1] << 16) | ((uint32_t)a.m[2] << 8) | a.m[3];
      if (got != (uint32_t)v.u) return w + "midi bytes differ";
      break;
    }
    case 's': case 'S':
      if (!(a.s >= buf && a.s < buf + n)) return w + "string pointer outside the message";
      if (strnlen(a.s, (size_t)(buf + n - a.s)) != v.s.size() || memcmp(a.s, v.s.data(), v.s.size())) return w + "string content differs";
      break;
    case 'b':
      if (a.b.len != (int32_t)v.s.size()) return w + "blob length " + std::to_string(a.b.len) + " != " + std::to_string(v.s.size());
      if (!((const char *)a.b.data >= buf && (const char *)a.b.data + a.b.len <= buf + n)) return w + "blob pointer outside the message";
      if (memcmp(a.b.data, v.s.data(), v.s.size())) return w + "blob bytes differ";
      break;
    case 'T': if (a.T != 1) return w + "T does not read as true"; break;
    case 'F': if (a.T != 0) return w + "F does not read as false"; break;
    default: break;
  }
  return "";
}

std::string run_msg(const Msg &m, vf::Ctx &ctx) {
  const std::string ref = m.ref();
  const size_t n = ref.size();
  mg::ArgPack p = mg::pack(m);
  const size_t JUNK = 16;
  std::unique_ptr<char[]> hb(new char[n + JUNK]);
  char *buf = hb.get();
  std::string e;

  // --- constructor 1: argument array
  memset(buf, 0xAA, n + JUNK);
  size_t r = rtosc_amessage(buf, n + JUNK, m.address.c_str(), m.tags.c_str(), p.args.empty() ? nullptr : p.args.data());
  if (!(e = cmp_bytes("rtosc_amessage", ref, buf, r)).empty()) return e;
  // length function: exact bound and with junk behind the message
  memset(buf + n, 0xAA, JUNK);
  size_t l1 = rtosc_message_length(buf, n), l2 = rtosc_message_length(buf, n + JUNK);
  if (l1 != n) return "rtosc_message_length(buf,n) = " + std::to_string(l1) + " != " + std::to_string(n);
  if (l2 != n) return "rtosc_message_length(buf,n+16) with junk behind = " + std::to_string(l2) + " != " + std::to_string(n);

  // --- constructor 2: varargs (hand-made va_list of any length; real '...' call for <=4 slots)
  if (!p.has_snan_float) {
    memset(buf, 0xAA, n + JUNK);
    r = mg::call_vmessage(buf, n + JUNK, m.address.c_str(), m.tags.c_str(), p.slots);
    if (!(e = cmp_bytes("rtosc_vmessage", ref, buf, r)).empty()) return e;
    if (p.slots.size() <= 4) {
      memset(buf, 0xAA, n + JUNK);
      r = mg::call_dots(buf, n + JUNK, m.address.c_str(), m.tags.c_str(), p, 0);
      if (!(e = cmp_bytes("rtosc_message", ref, buf, r)).empty()) return e;
      ctx.count("ctor.dots");
    }
    ctx.count("ctor.varargs");
  } else ctx.count("excluded.varargs_snan_float");

  // --- constructor 3: arg-val list (flat, then with runs replaced by ranges)
  {
    std::vector<rtosc_arg_val_t> av = mg::to_argvals(m, p);
    std::string flat = mg::strip_brackets(m.tags);
    std::string ref2 = refosc::encode(m.address, flat, m.vals);
    std::unique_ptr<char[]> hb2(new char[ref2.size() + JUNK]);
    memset(hb2.get(), 0xAA, ref2.size() + JUNK);
    r = rtosc_avmessage(hb2.get(), ref2.size() + JUNK, m.address.c_str(), av.size(), av.data());
    if (!(e = cmp_bytes("rtosc_avmessage", ref2, hb2.get(), r)).empty()) return e;
    // compress runs: constant runs of any bitwise-equal scalar, arithmetic runs of i/h/c
    std::vector<rtosc_arg_val_t> cv;
    bool compressed = false;
    for (size_t i = 0; i < av.size();) {
      char t = av[i].type;
      size_t j = i + 1;
      bool scalar = (t == 'i' || t == 'h' || t == 'c' || t == 'f' || t == 'd' || t == 'T' || t == 'F');
      if (scalar) {
        // constant run
        while (j < av.size() && av[j].type == t && m.vals[j].u == m.vals[i].u) j++;
        if (j - i >= 2) {
          rtosc_arg_val_t rg; memset(&rg, 0, sizeof rg);
          rg.type = '-'; rtosc_av_rep_num_set(&rg, (int32_t)(j - i)); rtosc_av_rep_has_delta_set(&rg, 0);
          cv.push_back(rg); cv.push_back(av[i]);
          compressed = true; i = j; continue;
        }
        // arithmetic run (integers only: exact)
        if ((t == 'i' || t == 'c' || t == 'h') && i + 1 < av.size() && av[i + 1].type == t) {
          int64_t a0 = t == 'h' ? (int64_t)m.vals[i].u : (int64_t)(int32_t)(uint32_t)m.vals[i].u;
          int64_t a1 = t == 'h' ? (int64_t)m.vals[i + 1].u : (int64_t)(int32_t)(uint32_t)m.vals[i + 1].u;
          // two's complement difference in the type's width
          uint64_t du = t == 'h' ? (uint64_t)a1 - (uint64_t)a0 : (uint64_t)(uint32_t)((uint32_t)a1 - (uint32_t)a0);
          j = i + 1;
          auto nth = [&](size_t k) -> uint64_t { return t == 'h' ? (uint64_t)a0 + du * k : (uint64_t)(uint32_t)((uint32_t)a0 + (uint32_t)du * (uint32_t)k); };
          while (j < av.size() && av[j].type == t && m.vals[j].u == nth(j - i)) j++;
          if (j - i >= 2) {
            rtosc_arg_val_t rg, dl; memset(&rg, 0, sizeof rg); memset(&dl, 0, sizeof dl);
            rg.type = '-'; rtosc_av_rep_num_set(&rg, (int32_t)(j - i)); rtosc_av_rep_has_delta_set(&rg, 1);
            dl.type = t; if (t == 'h') dl.val.h = (int64_t)du; else dl.val.i = (int32_t)(uint32_t)du;
            cv.push_back(rg); cv.push_back(dl); cv.push_back(av[i]);
            compressed = true; i = j; continue;
          }
        }
      }
      cv.push_back(av[i]);
      i++;
    }
    if (compressed) {
      memset(hb2.get(), 0xAA, ref2.size() + JUNK);
      r = rtosc_avmessage(hb2.get(), ref2.size() + JUNK, m.address.c_str(), cv.size(), cv.data());
      if (!(e = cmp_bytes("rtosc_avmessage(ranges)", ref2, hb2.get(), r)).empty()) return e;
      ctx.count("ctor.argvals_with_ranges");
    }
  }

  // --- accessors on an exact-size copy of the encoding
  std::unique_ptr<char[]> ex(new char[n]);
  memcpy(ex.get(), ref.data(), n);
  const char *msg = ex.get();
  const char *as = rtosc_argument_string(msg);
  if (!(as > msg && as < msg + n) || m.tags != as) return "rtosc_argument_string = \"" + vf::esc(as) + "\" != \"" + m.tags + "\"";
  unsigned cnt = rtosc_narguments(msg);
  if (cnt != m.vals.size()) return "rtosc_narguments = " + std::to_string(cnt) + " != number of value tags " + std::to_string(m.vals.size()) + " (tags \"" + m.tags + "\")";
  size_t yields = 0;
  for (rtosc_arg_itr_t it = rtosc_itr_begin(msg); !rtosc_itr_end(it);) {
    rtosc_arg_val_t av = rtosc_itr_next(&it);
    if (yields >= m.vals.size()) return "iterator yields more than " + std::to_string(m.vals.size()) + " values";
    if (!(e = check_val("iterator", yields, m.vals[yields], av.type, av.val, msg, n)).empty()) return e;
    yields++;
  }
  if (yields != m.vals.size()) return "iterator yields " + std::to_string(yields) + " values, expected " + std::to_string(m.vals.size());
  for (size_t i = 0; i < m.vals.size(); i++) {
    char t = rtosc_type(msg, (unsigned)i);
    rtosc_arg_t a = rtosc_argument(msg, (unsigned)i);
    if (!(e = check_val("rtosc_argument", i, m.vals[i], t, a, msg, n)).empty()) return e;
  }

  // the same bytes at an address that is not a multiple of four (inside another buffer, behind a one-byte header, ...):
  // the format pads relative to the start of the message, not to memory
  {
    const size_t off = 1 + (n + m.tags.size()) % 3;
    std::unique_ptr<char[]> ub(new char[n + off]);
    memset(ub.get(), 0x55, off);
    memcpy(ub.get() + off, ref.data(), n);
    const char *um = ub.get() + off;
    if (rtosc_message_length(um, n) != n) return "rtosc_message_length of the message at an unaligned address (offset " + std::to_string(off) + ") != " + std::to_string(n);
    if (rtosc_narguments(um) != m.vals.size()) return "rtosc_narguments differs for the message at an unaligned address";
    size_t y = 0;
    for (rtosc_arg_itr_t it = rtosc_itr_begin(um); !rtosc_itr_end(it);) {
      rtosc_arg_val_t av = rtosc_itr_next(&it);
      if (y >= m.vals.size()) return "iterator over the message at an unaligned address yields too many values";
      if (!(e = check_val("iterator (message at an unaligned address)", y, m.vals[y], av.type, av.val, um, n)).empty()) return e;
      y++;
    }
    if (y != m.vals.size()) return "iterator over the message at an unaligned address yields " + std::to_string(y) + " values, expected " + std::to_string(m.vals.size());
    for (size_t i = 0; i < m.vals.size(); i++) {
      rtosc_arg_t a = rtosc_argument(um, (unsigned)i);
      if (!(e = check_val("rtosc_argument (message at an unaligned address)", i, m.vals[i], rtosc_type(um, (unsigned)i), a, um, n)).empty()) return e;
    }
  }

  // classification
  bool nontriv = m.tags.size() > 0;
  if (nontriv) {
    uint64_t h = vf::fnv(m.tags, vf::mix(1469598103934665603ull, m.address.size() % 4));
    for (auto &v : m.vals) { h = vf::mix(h, v.u); h = vf::fnv(v.s, h); }
    ctx.nontriv(h);
  }
  ctx.count(std::string("addrlen_mod4.") + std::to_string(m.address.size() % 4));
  if (m.tags.find('[') != std::string::npos || m.tags.find(']') != std::string::npos) ctx.count("tags.with_brackets");
  if (n >= 4096) ctx.count("size.ge4k");
  for (auto &v : m.vals) if (v.nullblob) { ctx.count("blob.null_data"); break; }
  return "";
}

std::string vf_run(const Case &c, vf::Ctx &ctx) {
  std::string e = run_msg(c.m, ctx);
  if (!e.empty() || !c.reuse) return e;
  const std::string r1 = c.m.ref(), r2 = c.m2.ref();
  const size_t cap = std::max(r1.size(), r2.size());
  std::unique_ptr<char[]> hb(new char[cap]);
  char *buf = hb.get();
  auto read = [&](const Msg &m, const std::string &ref, const std::vector<int> &order, const char *what) -> std::string {
    memset(buf, 0, cap);
    memcpy(buf, ref.data(), ref.size());
    for (int i : order) {
      if (i < 0 || (size_t)i >= m.vals.size()) continue;
      char t = rtosc_type(buf, (unsigned)i);
      rtosc_arg_t a = rtosc_argument(buf, (unsigned)i);
      std::string r = check_val(what, (size_t)i, m.vals[(size_t)i], t, a, buf, ref.size());
      if (!r.empty()) return r;
    }
    return "";
  };
  if (!(e = read(c.m, r1, c.order1, "rtosc_argument (first message in the storage)")).empty()) return e;
  if (!(e = read(c.m2, r2, c.order2, "rtosc_argument (second message in the same storage)")).empty()) return e;
  ctx.count("reuse.second_message_in_same_storage");
  return "";
}

// exhaustive: every tag string over the 17 symbols up to length budget (2 or 3) x 4 value profiles x 4 address lengths
static Val profile_val(char t, int profile, uint64_t salt) {
  Val v;
  v.t = t;
  static const uint64_t i32[4] = {0, 0x7fffffffu, 0x80000000u, 0};
  static const uint64_t i64[4] = {0, ~(1ull << 63), 1ull << 63, 0};
  uint64_t r = salt * 0x9E3779B97F4A7C15ull + 0x1234567;
  r ^= r >> 29;
  switch (t) {
    case 'i': case 'c': case 'r': case 'm': case 'f': v.u = profile < 3 ? i32[profile] : (uint32_t)r; break;
    case 'h': case 't': case 'd': v.u = profile < 3 ? i64[profile] : r; break;
    case 's': case 'S': v.s = std::string("abcdefg").substr(0, (size_t)(profile == 3 ? r % 8 : profile)); break;
    case 'b': v.s = std::string("\1\0\2\3\4\5\6", 7).substr(0, (size_t)(profile == 3 ? r % 8 : profile)); v.nullblob = profile == 2; if (v.nullblob) v.s.assign(v.s.size(), '\0'); break;
    default: break;
  }
  return v;
}

std::string vf_enumerate(vf::Ctx &ctx, int worker, int nworkers, long budget) {
  int maxlen = budget > 0 ? (int)budget : 2;
  static const char *addrs[4] = {"/abc", "/abcd", "/abcde", "/ab"};  // lengths 4,5,6,3 -> every residue
  uint64_t idx = 0;
  std::vector<std::string> all{""};
  size_t start = 0;
  for (int l = 1; l <= maxlen; l++) {
    size_t end = all.size();
    for (size_t i = start; i < end; i++)
      for (int k = 0; k < 17; k++) all.push_back(all[i] + mg::TAGS17[k]);
    start = end;
  }
  for (auto &tags : all) {
    for (int prof = 0; prof < 4; prof++)
      for (int a = 0; a < 4; a++) {
        idx++;
        if ((int)(idx % (uint64_t)nworkers) != worker) continue;
        Msg m;
        m.address = addrs[a];
        m.tags = tags;
        uint64_t s = idx;
        for (char t : tags) if (t != '[' && t != ']') m.vals.push_back(profile_val(t, prof, s++));
        Case c; c.m = m;
        vf::G().current_case = vf::serialize(c, vf_property());
        ctx.begin_case();
        std::string msg = run_msg(m, ctx);
        if (!msg.empty()) {
          char name[64]; snprintf(name, sizeof name, "/violation-enum-%d.case", worker);
          vf::write_file(vf::G().outdir + name, vf::G().current_case + "# failure: " + vf::esc(msg) + "\n");
          return msg;
        }
        ctx.end_case([&] { return m.describe(); });
      }
  }
  if (worker == 0) ctx.count("enum.tagstrings", all.size());
  ctx.count("max.enum_taglen", (uint64_t)maxlen);
  return "";
}

VF_MAIN(Case)
