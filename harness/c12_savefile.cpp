// C12 - savefiles restore the saved state and contain only differences from defaults.
#include "common/genapp.hpp"
#include <set>

struct Case {
  ga::AppSpec spec;
  std::vector<ga::Set> hist;
  int corrupt = 0;   // which rejection variant to try (0..3)
  std::vector<ga::Set> hist2;   // more parameter messages after a first save, then the save that is loaded
  template <class A> void io(A &a) { a(spec)(hist)(corrupt); if (a.more()) a(hist2); }   // hist2: optional trailing field (older case files end after corrupt)
  std::string describe() const {
    std::string d = spec.describe() + " | history:";
    for (auto &s : hist) {
      d += " " + ga::prefix_of(s.target) + ga::name_of(s.field);
      if (s.idx >= 0) d += "[" + std::to_string(s.idx) + "]";
      d += "=" + s.v.show(ga::kind_of(s.field));
    }
    if (!hist2.empty()) d += " | save | then:";
    for (auto &s : hist2) {
      d += " " + ga::prefix_of(s.target) + ga::name_of(s.field);
      if (s.idx >= 0) d += "[" + std::to_string(s.idx) + "]";
      d += "=" + s.v.show(ga::kind_of(s.field));
    }
    return d;
  }
};
const char *vf_property() { return "C12"; }
void vf_init() {}

Case vf_generate() {
  Case c;
  c.spec = ga::gen_spec();
  c.hist = ga::gen_history(c.spec, 14);
  c.corrupt = vf::pickn(8) + 8 * vf::pickn(40);   // variant + 8 * number of blank characters put between header and messages
  if (vf::chance(40)) {
    c.hist2 = ga::gen_history(c.spec, 6);
    const ga::PSpec *pp = c.spec.find(c.spec.root, ga::PRESET);
    if (pp && vf::chance(60)) { ga::Set s; s.target = 0; s.field = ga::PRESET; s.v = ga::gen_val(ga::PRESET, *pp); s.idx = -1; s.by_symbol = vf::coin(); c.hist2.insert(c.hist2.begin() + vf::pickn((int)c.hist2.size() + 1), s); }
  }
  return c;
}

static std::set<std::string> expected_saved(ga::App &m) {
  std::set<std::string> e;
  for (auto &p : m.spec.root) {
    if (!p.has_default) continue;
    if (ga::kind_of(p.field) == ga::K_ABOOL) {   // 'vp#3/on': every element is its own line
      ga::Val cur = ga::get_root(m.root, p.field);
      for (size_t k = 0; k < 3; k++) if (cur.ai[k] != p.default_for(m.root.preset).ai[k]) e.insert(ga::top() + "/vp" + std::to_string(k) + "/on");
      continue;
    }
    if (!ga::get_root(m.root, p.field).eq(p.default_for(m.root.preset), ga::kind_of(p.field))) e.insert(ga::top() + "/" + ga::name_of(p.field));
  }
  std::vector<ga::Sub *> ss = m.subs();
  std::vector<std::string> pre = m.sub_prefixes();
  for (size_t k = 0; k < ss.size(); k++) {
    const std::string q = pre[k].substr(ga::top().size());
    bool by_en = (q == "/sub/" && m.spec.sub_en_by) || (q == "/psub/" && m.spec.psub_en_by) || (q.compare(0, 5, "/subs") == 0 && m.spec.subs_en_by);
    if (by_en && !m.root.en) continue;
    bool self_off = m.spec.self_on && !ss[k]->on;
    for (auto &p : m.spec.sub) {
      if (!p.has_default) continue;
      if (self_off && p.field != ga::ON) continue;   // only the enabling port of a self-disabled sub-tree is visited
      if (ga::kind_of(p.field) == ga::K_ABOOL) {   // 'sv#3/on': every element is its own line
        ga::Val cur = ga::get_sub(*ss[k], p.field);
        for (size_t j = 0; j < 3; j++) if (cur.ai[j] != p.dflt[0].ai[j]) e.insert(pre[k] + "sv" + std::to_string(j) + "/on");
        continue;
      }
      if (!ga::get_sub(*ss[k], p.field).eq(p.dflt[0], ga::kind_of(p.field))) e.insert(pre[k] + ga::name_of(p.field));
    }
  }
  return e;
}

static std::vector<std::string> message_lines(const std::string &file) {
  std::vector<std::string> l;
  std::istringstream in(file);
  std::string s;
  while (std::getline(in, s)) if (!s.empty() && s[0] == '/') l.push_back(s);
  return l;
}

std::string vf_run(const Case &c, vf::Ctx &ctx) {
  c.spec.set_mode();
  if (c.spec.short_names) ctx.count("class.one_letter_names_of_depended_on_ports");
  if (c.spec.nested) ctx.count("class.application_mounted_one_level_down");
  ga::App app(c.spec), model(c.spec), fresh(c.spec), untouched(c.spec);
  const rtosc_version ver = {1, 2, 3};
  std::string D = " | " + c.describe();
  std::set<std::string> written;
  // (1) an untouched application saves only the two header lines
  untouched.attach();
  std::string f0 = rtosc::save_to_file(untouched.saveroot(), &untouched.root, "genapp", ver, written, {});
  written.clear();
  {
    std::vector<std::string> ml = message_lines(f0);
    size_t nl = 0; for (char ch : f0) if (ch == '\n') nl++;
    if (!ml.empty() || nl != 2) return "an untouched application saves more than the two header lines: \"" + vf::esc(f0) + "\"" + D;
  }
  // reach the state through parameter messages
  auto apply = [&](const std::vector<ga::Set> &h) -> std::string {
    for (size_t i = 0; i < h.size(); i++) {
      const ga::Set &s = h[i];
      const ga::PSpec *p = c.spec.find(s.target == 0 ? c.spec.root : c.spec.sub, s.field);
      if (!p) continue;
      if (s.target == 2 && !app.root.psub) continue;
      app.dispatch(ga::encode_set(s, *p));
      ga::model_apply(model, s);
      std::string e = ga::compare(app, model, false, "after a parameter message the application state differs from the model (harness or port defect)");
      if (!e.empty()) return e + " at message " + std::to_string(i) + D;
    }
    return "";
  };
  // (2) save: exactly the parameters that differ from their (preset-dependent) default
  std::string file;
  std::vector<std::string> lines;
  std::set<std::string> got;
  auto save_and_check = [&]() -> std::string {
    app.attach();
    written.clear();
    file = rtosc::save_to_file(app.saveroot(), &app.root, "genapp", ver, written, {});
    lines = message_lines(file);
    got.clear();
    for (auto &l : lines) {
      std::string a = l.substr(0, l.find_first_of(" \t"));
      if (!got.insert(a).second) return "savefile contains " + a + " twice" + D + " | file=\"" + vf::esc(file) + "\"";
    }
    std::set<std::string> want = expected_saved(model);
    for (auto &w : want) if (!got.count(w)) return "parameter " + w + " differs from its default but is missing in the savefile" + D + " | file=\"" + vf::esc(file) + "\"";
    for (auto &g : got) if (!want.count(g)) return "savefile contains " + g + " although it has its default value (or is not saveable)" + D + " | file=\"" + vf::esc(file) + "\"";
    return "";
  };
  {
    std::string e = apply(c.hist);
    if (e.empty()) e = save_and_check();
    if (e.empty() && !c.hist2.empty()) {
      // the application keeps running after a save: more messages, then the save that is loaded below
      e = apply(c.hist2);
      if (e.empty()) e = save_and_check();
      if (e.empty()) ctx.count("class.saved_twice");
    }
    if (!e.empty()) return e;
  }
  // (3) load into a freshly default-initialised instance
  fresh.attach();
  ga::hook().fn = [&](const char *loc) { fresh.on_changed(loc); };
  int rv = rtosc::load_from_file(file.c_str(), fresh.saveroot(), &fresh.root, "genapp", ver);
  ga::hook().fn = nullptr;
  if (rv != (int)lines.size()) return "load_from_file returns " + std::to_string(rv) + " for a savefile with " + std::to_string(lines.size()) + " message lines" + D + " | file=\"" + vf::esc(file) + "\"";
  {
    std::string e = ga::compare(fresh, model, true, "state after loading the savefile into a fresh instance");
    if (!e.empty()) return e + D + " | file=\"" + vf::esc(file) + "\"";
  }
  // (4) rejections
  {
    std::string bad = file;
    const char *what = "";
    // blank space behind the header (any amount is allowed there)
    { size_t h2 = bad.find('\n', bad.find('\n') + 1); int pad = c.corrupt / 8; std::string sp; for (int k = 0; k < pad; k++) sp += (k % 5 == 4) ? '\n' : ' '; if (h2 != std::string::npos) bad.insert(h2 + 1, sp + (pad ? "\n" : "")); }
    switch (c.corrupt % 8) {
      case 0: bad.replace(0, 9, "% RX OSC "); what = "a wrong first header line"; break;
      case 1: {   // also names that extend, shorten or differ in case from the loader's own (seed C12-13)
        static const char *const other[] = {"otherapp", "genapp2", "genap", "xgenapp", "Genapp", "genapp-ng"};
        size_t p = bad.find("genapp"); bad.replace(p, 6, other[(c.corrupt / 8) % 6]); what = "another application's name"; break; }
      case 2: bad += "\n$$ not a message\n"; what = "an unparsable line"; break;
      case 3: bad += "\n/no_such_port_anywhere 1\n"; what = "a line no port accepts"; break;
      case 4: { size_t p = bad.find("genapp v"); bad.erase(p + 7, 1); what = "an application version without the 'v'"; break; }
      case 5: { size_t p = bad.find("genapp v1.2.3"); bad.replace(p, 13, "genapp v1.2"); what = "an application version of two numbers"; break; }
      case 6: { size_t p = bad.find("genapp v1.2.3"); bad.replace(p, 13, "genapp"); what = "no application version"; break; }
      default: { size_t p = bad.find("savefile"); bad.replace(p, 8, "savefil"); what = "a misspelt first header line"; break; }
    }
    ga::App victim(c.spec);
    victim.attach();
    ga::hook().fn = [&](const char *loc) { victim.on_changed(loc); };
    int r2 = rtosc::load_from_file(bad.c_str(), victim.saveroot(), &victim.root, "genapp", ver);
    ga::hook().fn = nullptr;
    if (r2 >= 0) return std::string("a savefile with ") + what + " is accepted (load_from_file returns " + std::to_string(r2) + ")" + D;
    ctx.count(std::string("rejected.") + std::to_string(c.corrupt % 8));
  }
  // classification
  bool deep = false, typed = false, preset_in_force = false;
  for (auto &g : got) {
    if (g.find('/', 1 + ga::top().size()) != std::string::npos) deep = true;
    for (auto &p : c.spec.root) if (g == ga::top() + "/" + ga::name_of(p.field) && ga::kind_of(p.field) != ga::K_INT) typed = true;
  }
  for (auto &p : c.spec.root) if (p.depends && model.root.preset >= 0 && model.root.preset < 3 && p.has_preset[(size_t)model.root.preset]) preset_in_force = true;
  ctx.count("saved_lines", lines.size());
  if (lines.size() > 32) ctx.count("class.more_than_32_lines");
  if (deep) ctx.count("class.changed_below_depth1");
  if (typed) ctx.count("class.non_int_kind_saved");
  if (preset_in_force) ctx.count("class.preset_dependent_default_in_force");
  if (c.spec.self_on) ctx.count("class.self_enabled_by");
  if (c.spec.sub_en_by || c.spec.psub_en_by || c.spec.subs_en_by) ctx.count("class.sibling_enabled_by");
  if (deep || typed || preset_in_force) ctx.nontriv(vf::fnv(c.describe()));
  return "";
}
std::string vf_enumerate(vf::Ctx &, int, int, long) { return ""; }
VF_MAIN(Case)
