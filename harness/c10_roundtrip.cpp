// C10 - pretty-printing is reversible: print -> check -> scan returns the values.
#include "common/avgen.hpp"
#include <rtosc/pretty-format.h>
#include <rtosc/rtosc-time.h>
#include <memory>

using avg::V;

struct Case {
  std::vector<V> vals;
  int linelength = 80, precision = 2;
  bool compress = true;
  bool as_message = false;
  std::string address;
  avg::Seg seg;   // empty: the list is handed to the printer value by value; else some runs are handed over already compressed (arrays: their own V::seg)
  template <class A> void io(A &a) { a(vals)(linelength)(precision)(compress)(as_message)(address); if (a.more()) a(seg); }   // seg: optional trailing field
  std::string describe() const {
    return "vals={" + avg::show(vals, seg) + "} linelength=" + std::to_string(linelength) + " precision=" + std::to_string(precision) + " compress=" + std::to_string(compress) + (as_message ? " address=" + address : "");
  }
};
const char *vf_property() { return "C10"; }
void vf_init() { setenv("TZ", "UTC", 1); tzset(); }

static const char ESCAPES[] = "\a\b\t\n\v\f\r\\\"'";
static std::string gen_text(int maxlen, bool ident) {
  int n = vf::chance(70) ? vf::pick<int>(0, std::min(maxlen, 12)) : vf::sized<int>(0, maxlen);
  std::string s;
  if (ident) {
    if (vf::chance(12)) return vf::oneof<std::string>({"true", "false", "nil", "inf", "now", "immediately", "MIDI", "BLOB", "x"});
    n = std::max(n, 1);
    static const std::string F = "abcxyzABC_", R = "abcxyzABC_0123456789";
    s += F[(size_t)vf::pickn((int)F.size())];
    while ((int)s.size() < n) s += R[(size_t)vf::pickn((int)R.size())];
    return s;
  }
  for (int i = 0; i < n; i++) {
    int k = vf::pickn(10);
    if (k == 0) s += ESCAPES[vf::pickn(10)];
    else if (k == 1) s += vf::oneof<char>({' ', '%', '.', '/', '[', ']', '(', ')', '-', '#'});
    else s += (char)vf::pick<int>(32, 126);
  }
  return s;
}

static V gen_scalar(char t) {
  V v;
  v.t = t;
  switch (t) {
    case 'i': v.i = vf::chance(60) ? vf::pick<int>(-20, 20) : (int32_t)vf::oneof<uint32_t>({0x7fffffffu, 0x80000000u, vf::bits32(), 100u, (uint32_t)-100, 1000000u}); break;
    case 'h': v.i = vf::chance(60) ? vf::pick<int>(-20, 20) : (int64_t)vf::oneof<uint64_t>({(uint64_t)INT64_MAX, (uint64_t)INT64_MIN, vf::bits64(), 1ull << 40}); break;
    case 'c': v.i = vf::chance(80) ? vf::pick<int>(32, 126) : ESCAPES[vf::pickn(10)]; break;
    case 'r': case 'm': v.i = (int32_t)vf::bits32(); break;
    case 'f': {
      if (vf::chance(50)) v.d = (float)vf::pick<int>(-40, 40) / 4.0f;
      else { uint32_t u; float f; do { u = vf::bits32(); memcpy(&f, &u, 4); } while (!std::isfinite(f)); v.d = f; }
      break;
    }
    case 'd': {
      if (vf::chance(50)) v.d = vf::pick<int>(-40, 40) / 4.0;
      else { uint64_t u; double f; do { u = vf::bits64(); memcpy(&f, &u, 8); } while (!std::isfinite(f)); v.d = f; }
      break;
    }
    case 's': v.s = gen_text(200, false); break;
    case 'S': v.s = gen_text(40, vf::chance(70)); break;
    case 'b': { int n = vf::sized<int>(0, 40); for (int i = 0; i < n; i++) v.s += (char)vf::pick<int>(0, 255); break; }
    case 't': {
      if (vf::chance(25)) { v.i = 1; break; }
      uint64_t secs = vf::chance(50) ? (uint64_t)vf::pick<int>(0, 2000000000) : (uint64_t)vf::bits32();
      if (vf::chance(30)) secs = secs / 86400 * 86400;          // midnight
      else if (vf::chance(30)) secs = secs / 60 * 60;           // full minute
      uint64_t frac = 0;
      if (vf::chance(50)) { int bits = vf::pick<int>(1, 24); frac = ((uint64_t)vf::bits32() >> (32 - bits)) << (32 - bits); if (vf::coin()) frac >>= vf::pick<int>(0, 8); frac &= 0xffffffffu; }
      v.i = (int64_t)((secs << 32) | frac);
      if (v.i == 1) v.i = 0;
      break;
    }
    default: break;
  }
  return v;
}

static const char TYPES[] = "ihcfdsSbmrTFNIt";
static void gen_list(std::vector<V> &out, int maxn, bool arrays, const char *only) {
  int n = vf::sized<int>(0, maxn);
  // two counting runs side by side that share their boundary value, right at the start of the list / array
  // (the scanner then has exactly one range in front of the second one)
  if (vf::chance(6)) {
    const char *cand = only ? only : "ihc";
    char t = cand[vf::pickn((int)strlen(cand))];
    if (strchr("ihc", t)) {
      V s; s.t = t; s.i = t == 'c' ? vf::pick<int>(60, 80) : vf::pick<int>(-50, 50);
      V d1; d1.t = t; d1.i = vf::coin() ? 1 : -1;
      V d2; d2.t = t; d2.i = vf::coin() ? 1 : -1;
      int r1 = vf::pick<int>(2, 7), r2 = vf::pick<int>(2, 7);
      for (int i = 0; i < r1; i++) out.push_back(avg::nth(s, d1, i));
      V s2 = out.back();
      for (int i = 0; i < r2; i++) out.push_back(avg::nth(s2, d2, i));
    }
  }
  while ((int)out.size() < n) {
    char t = only ? only[vf::pickn((int)strlen(only))] : (vf::chance(50) ? "ihfds"[vf::pickn(5)] : TYPES[vf::pickn(15)]);
    int k = vf::pickn(12);
    if (arrays && k == 0) {
      V a; a.t = 'a';
      std::string et(1, vf::chance(25) ? 'T' : TYPES[vf::pickn(15)]);
      if (et == "T" || et == "F") et = "TF";
      gen_list(a.el, 8, false, et.c_str());
      a.at = a.el.empty() ? 'i' : a.el[0].t;
      out.push_back(a);
    } else if (k <= 3) {  // constant run of 1..9
      V v = gen_scalar(t);
      int r = vf::pick<int>(1, 9);
      for (int i = 0; i < r && (int)out.size() < n + 8; i++) out.push_back(v);
    } else if (k <= 6 && strchr("ihcfd", t)) {  // arithmetic run of 1..9
      V s = gen_scalar(t), d; d.t = t;
      if (t == 'f' || t == 'd') { d.d = vf::oneof<double>({0.25, 0.5, 1.0, -0.5, 2.0, -1.0}); s.d = (double)vf::pick<int>(-40, 40) / 4.0; }
      else { d.i = vf::oneof<int>({1, -1, 2, 3, -3, 10}); s.i = t == 'c' ? vf::pick<int>(50, 90) : vf::pick<int>(-50, 50); }
      if (!out.empty() && out.back().t == t && vf::chance(30)) s = out.back();   // a run that starts with the value in front of it (adjacent runs sharing a value)
      int r = vf::pick<int>(1, 9);
      for (int i = 0; i < r && (int)out.size() < n + 8; i++) { V e = avg::nth(s, d, i); if (t == 'c' && (e.i < 32 || e.i > 126)) break; out.push_back(e); }
    } else out.push_back(gen_scalar(t));
  }
}

Case vf_generate() {
  Case c;
  bool single_type = vf::chance(35);
  char one[2] = {TYPES[vf::pickn(15)], 0};
  gen_list(c.vals, 12, true, single_type ? one : nullptr);
  if (vf::chance(35)) {
    // the printer also gets lists in which runs already are ranges ('n x v', arithmetic with delta), at top level and inside arrays
    for (auto &v : c.vals) if (v.t == 'a' && vf::chance(60)) v.seg = avg::gen_seg(v.el, 70, false, "ich");
    c.seg = avg::gen_seg(c.vals, 70, false, "ich");   // integer runs only and none that wrap around the limits of the type: the printer itself never makes other counting ranges, the text format cannot express wrapping ones, and how a float range with an inexact step expands is nowhere defined
  }
  c.linelength = vf::chance(40) ? 80 : vf::pick<int>(10, 120);
  c.precision = vf::chance(40) ? 2 : vf::pick<int>(0, 9);
  c.compress = vf::coin();
  c.as_message = vf::chance(30);
  if (c.as_message) c.address = "/" + vf::strover("abz09/_", 0, 12);
  return c;
}

static bool known_excluded(const Case &c, vf::Ctx &ctx) {
  (void)c; (void)ctx;
  return false;
}

std::string vf_run(const Case &c, vf::Ctx &ctx) {
  if (known_excluded(c, ctx)) return "";
  std::vector<rtosc_arg_val_t> av;
  if (c.seg.empty()) avg::build(av, c.vals, avg::plain_seg(c.vals.size()), true);
  else { avg::build(av, c.vals, c.seg, false); ctx.count("class.input_with_ranges"); }
  rtosc_print_options opt;
  opt.lossless = true;
  opt.floating_point_precision = c.precision;
  opt.sep = " ";
  opt.linelength = c.linelength;
  opt.compress_ranges = c.compress;
  const size_t BS = 1 << 17;
  std::unique_ptr<char[]> hb(new char[BS + 8]);
  char *buf = hb.get() + 8;
  memset(hb.get(), ' ', 8);
  memset(buf, 0x5a, BS);
  size_t wrt;
  if (c.as_message) wrt = rtosc_print_message(c.address.c_str(), av.data(), av.size(), buf, BS, &opt, 0);
  else wrt = rtosc_print_arg_vals(av.data(), av.size(), buf, BS, &opt, 0);
  size_t len = strnlen(buf, BS);
  std::string text(buf, len);
  if (getenv("VERIF_DEBUG")) fprintf(stderr, "TEXT[%s]\n", text.c_str());
  auto T = [&] { return " | text=\"" + vf::esc(text.substr(0, 300)) + "\""; };
  if (av.empty() && !c.as_message) {
    // nothing printed: the buffer may legitimately be untouched
    if (wrt != 0) return "printing an empty list returns " + std::to_string(wrt);
    ctx.count("empty_list");
    return "";
  }
  if (wrt != len) return "printer returns " + std::to_string(wrt) + " but the text has length " + std::to_string(len) + T();
  int count = c.as_message ? rtosc_count_printed_arg_vals_of_msg(buf) : rtosc_count_printed_arg_vals(buf);
  if (av.empty()) {
    // message without arguments: the checker has nothing to count
    ctx.count("message_without_args");
    return "";
  }
  if (count <= 0) return "syntax checker rejects the printed text (returns " + std::to_string(count) + ")" + T();
  const size_t SLACK = 16;
  std::vector<rtosc_arg_val_t> out((size_t)count + SLACK);
  memset(out.data(), 0xCD, out.size() * sizeof(rtosc_arg_val_t));
  const size_t SB = 1 << 16;
  std::unique_ptr<char[]> sb(new char[SB]);
  size_t rd;
  char addr[64];
  if (c.as_message) rd = rtosc_scan_message(buf, addr, sizeof addr, out.data(), (size_t)count, sb.get(), SB);
  else rd = rtosc_scan_arg_vals(buf, out.data(), (size_t)count, sb.get(), SB);
  size_t written = 0;
  for (size_t i = 0; i < out.size(); i++) if ((unsigned char)out[i].type != 0xCD) written = i + 1;
  if (written != (size_t)count) return "checker reports " + std::to_string(count) + " values but the scanner wrote " + std::to_string(written) + T();
  if (rd != len) return "scanner consumed " + std::to_string(rd) + " of " + std::to_string(len) + " bytes" + T();
  if (c.as_message && c.address != addr) return "scanned address \"" + vf::esc(addr) + "\" != \"" + c.address + "\"";
  std::vector<V> got;
  std::string err;
  if (avg::expand(out.data(), (size_t)count, got, err) != (size_t)count) return "scanned values malformed: " + err + T();
  std::string where;
  if (!avg::list_same(c.vals, got, where)) return "scanned values differ from the originals: " + where + T();

  // classification
  bool longrun = false, broken = text.find("\"\\\n") != std::string::npos, negafter = false, ranged = false;
  for (size_t i = 0; i < (size_t)count; i++) if (out[i].type == '-') ranged = true;
  for (size_t i = 0; i + 4 < c.vals.size(); i++) { bool r = true; for (size_t k = 1; k < 5; k++) if (c.vals[i + k].t != c.vals[i].t) r = false; if (r) longrun = true; }
  for (size_t i = 1; i < c.vals.size(); i++) if (strchr("ihfd", c.vals[i].t) && strchr("ihfd", c.vals[i - 1].t) && (c.vals[i].i < 0 || c.vals[i].d < 0)) negafter = true;
  if (ranged) ctx.count("class.scanned_as_range");
  if (broken) ctx.count("class.string_broken_across_lines");
  if (negafter) ctx.count("class.negative_after_number");
  if (text.find('\n') != std::string::npos) ctx.count("class.multi_line");
  if (c.as_message) ctx.count("class.message");
  for (auto &v : c.vals) if (v.t == 'a') { ctx.count("class.has_array"); break; }
  size_t maxline = 0, cur = 0;
  for (char ch : text) { if (ch == '\n') cur = 0; else maxline = std::max(maxline, ++cur); }
  if ((int)maxline > c.linelength) ctx.count("info.line_longer_than_linelength(not judged)");
  if (c.vals.size() >= 2 || longrun || broken || negafter) ctx.nontriv(vf::fnv(text, vf::mix(c.linelength, c.precision)));
  return "";
}
std::string vf_enumerate(vf::Ctx &, int, int, long) { return ""; }
VF_MAIN(Case)
