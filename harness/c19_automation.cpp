// C19 - automation output stays in range and MIDI-learn requests are served in order.
#include "common/vf.hpp"
#include "common/refosc.hpp"
#include <rtosc/automations.h>
#include <rtosc/ports.h>
#include <rtosc/port-sugar.h>
#include <cmath>
#include <deque>
#include <functional>

struct App { int vol, pan, big; float freq, q, neg, lg; bool en; static const rtosc::Ports ports; };
#define rObject App
const rtosc::Ports App::ports = {
    rParamI(vol, rLinear(0, 127), "d"), rParamI(pan, rLinear(-64, 63), "d"), rParamI(big, rLinear(-1000, 1000), "d"),
    rParamF(freq, rLog(20, 20000), "d"), rParamF(q, rLinear(0.1, 15.2), "d"), rParamF(neg, rLinear(-1, 1), "d"),
    rParamF(lg, rLogWithLogmin(0, 100, 0.01), "d"), rToggle(en, "d"),
};
#undef rObject
struct P { const char *path; char type; double mn, mx; bool log; double logmin; };
static const P PARAMS[8] = {{"/vol", 'i', 0, 127, false, 0}, {"/pan", 'i', -64, 63, false, 0}, {"/big", 'i', -1000, 1000, false, 0}, {"/freq", 'f', 20, 20000, true, 20},
                            {"/q", 'f', 0.1, 15.2, false, 0}, {"/neg", 'f', -1, 1, false, 0}, {"/lg", 'f', 0, 100, true, 0.01}, {"/en", 'T', 0, 1, false, 0}};

struct Op {
  int kind = 0;  // 0 createBinding 1 clearSlot 2 clearSlotSub 3 gain/offset+updateMapping 4 setSlot 5 handleMidi CC 6 NRPN sequence 7 setSlotSubPath
  int slot = 0, sub = 0, param = 0;
  bool learn = false;
  int gain = 100, offset = 0;   // in percent
  int v1000 = 0;                // slot value * 1000
  int ch = 0, cc = 0, val = 0, hi = 0, lo = 0, vhi = 0, vlo = 0;
  template <class A> void io(A &a) { a(kind)(slot)(sub)(param)(learn)(gain)(offset)(v1000)(ch)(cc)(val)(hi)(lo)(vhi)(vlo); }
};
struct Case {
  int nslots = 2, per = 1;
  std::vector<Op> ops;
  template <class A> void io(A &a) { a(nslots)(per)(ops); }
  std::string describe() const {
    std::string d = "mgr(" + std::to_string(nslots) + "," + std::to_string(per) + "):";
    for (auto &o : ops) {
      switch (o.kind) {
        case 0: d += " bind(s" + std::to_string(o.slot) + "," + PARAMS[o.param].path + (o.learn ? ",learn)" : ")"); break;
        case 1: d += " clear(s" + std::to_string(o.slot) + ")"; break;
        case 2: d += " clearSub(s" + std::to_string(o.slot) + "," + std::to_string(o.sub) + ")"; break;
        case 3: d += " map(s" + std::to_string(o.slot) + "," + std::to_string(o.sub) + ",gain=" + std::to_string(o.gain) + ",off=" + std::to_string(o.offset) + ")"; break;
        case 4: d += " set(s" + std::to_string(o.slot) + "," + std::to_string(o.v1000 / 1000.0) + ")"; break;
        case 7: d += " path(s" + std::to_string(o.slot) + "," + std::to_string(o.sub) + "," + PARAMS[o.param].path + ")"; break;
        case 8: d += " ctl(" + std::to_string(o.cc) + "=" + std::to_string(o.val) + ")"; break;
        case 5: d += " cc(" + std::to_string(o.ch) + "," + std::to_string(o.cc) + "," + std::to_string(o.val) + ")"; break;
        default: d += " nrpn(" + std::to_string(o.hi) + "," + std::to_string(o.lo) + "=" + std::to_string(o.vhi) + "," + std::to_string(o.vlo) + ")"; break;
      }
    }
    return d;
  }
};
const char *vf_property() { return "C19"; }
void vf_init() {}

Case vf_generate() {
  Case c;
  c.nslots = vf::pick<int>(2, 6);
  c.per = vf::pick<int>(1, 3);
  int n = vf::sized<int>(1, 40);
  bool nrpn_started = false;
  for (int i = 0; i < n; i++) {
    Op o;
    int k = vf::pickn(20);
    o.slot = vf::pickn(c.nslots);
    o.sub = vf::pickn(c.per);
    if (k < 5) { o.kind = 0; o.param = vf::pickn(8); o.learn = vf::chance(60); }
    else if (k < 6) { o.kind = 7; o.param = vf::pickn(8); }
    else if (k < 8) o.kind = 1;
    else if (k < 9) o.kind = 2;
    else if (k < 11) { o.kind = 3; o.gain = vf::oneof<int>({100, 50, 200, 10, -100, 100, 0}); o.offset = vf::oneof<int>({0, 0, 10, -10, 50, -50}); }
    else if (k < 15) { o.kind = 4; o.v1000 = vf::chance(75) ? vf::pick<int>(0, 1000) : vf::pick<int>(-500, 1500); }
    else if (k < 19) {
      o.kind = 5; o.ch = vf::pickn(3);
      do o.cc = vf::pick<int>(1, 20); while (o.cc == 6);   // 6,38,98,99 are (N)RPN control messages
      o.val = vf::pick<int>(0, 127);
    } else if (nrpn_started && vf::chance(55)) {
      // one (N)RPN control message on its own: a sender may select another parameter with the LSB alone, or send data entry alone
      o.kind = 8; o.cc = vf::oneof<int>({98, 98, 98, 99, 6, 38}); o.val = (o.cc == 98) ? vf::pickn(4) : (o.cc == 99) ? vf::pickn(3) : vf::pick<int>(0, 127);
    } else { o.kind = 6; o.hi = vf::pickn(3); o.lo = vf::pickn(4); o.vhi = vf::pick<int>(0, 127); o.vlo = vf::pick<int>(0, 127); nrpn_started = true; }
    c.ops.push_back(o);
  }
  (void)nrpn_started;
  return c;
}

// the same operation on another manager (no model): a second instance that lives next to the checked one and goes
// through the same history must not influence it (nothing is shared between managers)
static void apply_raw(rtosc::AutomationMgr &m, const Op &o) {
  switch (o.kind) {
    case 0: m.createBinding(o.slot, PARAMS[o.param].path, o.learn); break;
    case 7: m.setSlotSubPath(o.slot, o.sub, PARAMS[o.param].path); break;
    case 1: m.clearSlot(o.slot); break;
    case 2: m.clearSlotSub(o.slot, o.sub); break;
    case 3: m.setSlotSubGain(o.slot, o.sub, (float)o.gain); m.setSlotSubOffset(o.slot, o.sub, (float)o.offset); m.updateMapping(o.slot, o.sub); break;
    case 4: m.setSlot(o.slot, (float)o.v1000 / 1000.0f); break;
    case 5: m.handleMidi(o.ch, o.cc, o.val); break;
    case 8: m.handleMidi(0, o.cc, o.val); break;
    default: { int seq[4][2] = {{99, o.hi}, {98, o.lo}, {6, o.vhi}, {38, o.vlo}}; for (auto &q : seq) m.handleMidi(0, q[0], q[1]); break; }
  }
}

struct MSub { bool used = false; int param = 0; float gain = 100, offset = 0; float a = 0, b = 0; float pmin = 0, pmax = 0; };
struct MSlot { bool used = false; int cc = -1, nrpn = -1; std::vector<MSub> subs; };

std::string vf_run(const Case &c, vf::Ctx &ctx) {
  rtosc::AutomationMgr mgr(c.nslots, c.per, 4);
  mgr.set_ports(App::ports);
  std::vector<std::string> out;
  mgr.backend = [&](const char *m) { out.push_back(std::string(m, rtosc_message_length(m, 256))); };
  // every other case: a second manager of another shape runs the history shifted by one operation
  const bool with_shadow = (c.ops.size() + (size_t)c.nslots) % 2 == 0;
  rtosc::AutomationMgr shadow(c.nslots + 1, c.per, 4);
  shadow.set_ports(App::ports);
  shadow.backend = [](const char *) {};
  if (with_shadow) ctx.count("class.second_manager_alongside");
  std::vector<MSlot> ms((size_t)c.nslots);
  for (auto &s : ms) s.subs.resize((size_t)c.per);
  std::deque<int> queue;  // slots waiting for learn, oldest first
  std::string D = " | " + c.describe();
  bool cls_clear_while_waiting = false, cls_served2 = false, cls_gain = false;
  int served = 0;
  int last_set_slot = -1; float last_v = 0; std::vector<double> last_out;
  bool nrpn_primed = false;
  int sel_hi = -1, sel_lo = -1, dat_hi = -1, dat_lo = -1;   // (N)RPN: selected parameter and the data entered *since it was selected*

  auto remap = [&](MSub &s) {
    float mn = s.pmin, mx = s.pmax;
    float center = (mn + mx) * (0.5 + s.offset / 100.0);
    float range = (mx - mn) * s.gain / 100.0;
    s.a = center - range / 2.0; s.b = center + range / 2.0;
  };
  // check the messages one setSlot(slot, v) produced; returns the numeric outputs
  auto check_emission = [&](int slot, float v, bool exact_value_known, std::vector<double> &vals, const std::string &W) -> std::string {
    std::vector<int> subs;
    for (int j = 0; j < c.per; j++) if (ms[(size_t)slot].subs[(size_t)j].used) subs.push_back(j);
    if (out.size() != subs.size()) return "slot " + std::to_string(slot) + " with " + std::to_string(subs.size()) + " bound parameter(s) emitted " + std::to_string(out.size()) + " message(s)" + W;
    for (size_t k = 0; k < subs.size(); k++) {
      const MSub &s = ms[(size_t)slot].subs[(size_t)subs[k]];
      const P &p = PARAMS[s.param];
      refosc::Decoded d = refosc::decode((const unsigned char *)out[k].data(), out[k].size());
      if (d.st != refosc::OK) return "emitted message is malformed" + W;
      if (d.address != p.path) return "message goes to " + d.address + ", bound parameter is " + p.path + W;
      double val;
      if (p.type == 'T') {
        if (d.tags != "T" && d.tags != "F") return std::string("toggle parameter ") + p.path + " got type \"" + d.tags + "\"" + W;
        val = d.tags == "T";
      } else {
        if (d.tags != std::string(1, p.type)) return std::string("parameter ") + p.path + " of type " + p.type + " got type \"" + d.tags + "\"" + W;
        uint32_t u = (uint32_t)d.vals[0].u;
        if (p.type == 'i') val = (double)(int32_t)u; else { float f; memcpy(&f, &u, 4); val = f; }
        double tol = p.log ? 1e-5 * std::max(fabs(p.mx), fabs(p.mn)) + 1e-5 * fabs(val) : 0;
        if (!(val >= p.mn - tol && val <= p.mx + tol)) return std::string("value ") + std::to_string(val) + " for " + p.path + " is outside [" + std::to_string(p.mn) + "," + std::to_string(p.mx) + "]" + W;
        if (exact_value_known && s.gain == 100 && s.offset == 0 && v >= 0 && v <= 1) {
          if (p.log) {
            double lmin = p.logmin, want = exp(log(lmin) + (double)v * (log(p.mx) - log(lmin)));
            if (fabs(val - want) > 1e-5 * fabs(want) + 1e-12) return std::string("log-scale ") + p.path + ": slot value " + std::to_string(v) + " gives " + std::to_string(val) + ", expected " + std::to_string(want) + W;
          } else {
            double want = p.mn + (double)v * (p.mx - p.mn);
            double eps = 4 * 1.1920929e-7 * (fabs(p.mn) + fabs(p.mx));
            if (p.type == 'f') { if (fabs(val - want) > eps) return std::string("linear ") + p.path + ": slot value " + std::to_string(v) + " gives " + std::to_string(val) + ", expected " + std::to_string(want) + W; }
            else if (!(fabs(val - want) <= 0.5 + eps)) return std::string("linear int ") + p.path + ": slot value " + std::to_string(v) + " gives " + std::to_string(val) + ", expected round(" + std::to_string(want) + ")" + W;
          }
        }
      }
      vals.push_back(val);
    }
    return "";
  };
  auto model_learn_head = [&](bool is_nrpn, int id) -> int {
    if (queue.empty()) return -1;
    int s = queue.front();
    queue.pop_front();
    if (is_nrpn) ms[(size_t)s].nrpn = id; else ms[(size_t)s].cc = id;
    served++;
    return s;
  };
  std::function<std::string(int, int, int, const std::string &)> complete_nrpn;
  auto check_queue = [&](const std::string &W) -> std::string {
    // model queue == slots ordered by their 'learning' number 1..k
    std::vector<int> got((size_t)c.nslots, 0);
    for (int i = 0; i < c.nslots; i++) {
      int l = mgr.slots[i].learning;
      bool waiting = false; size_t posn = 0;
      for (size_t k = 0; k < queue.size(); k++) if (queue[k] == i) { waiting = true; posn = k + 1; }
      if (waiting && l != (int)posn) return "slot " + std::to_string(i) + " asked for MIDI learn as number " + std::to_string(posn) + " of " + std::to_string(queue.size()) + " waiting, the manager has it at position " + std::to_string(l) + W;
      if (!waiting && l > 0) return "slot " + std::to_string(i) + " is not waiting for MIDI learn but the manager queues it at position " + std::to_string(l) + W;
    }
    for (int i = 0; i < c.nslots; i++) {
      if (mgr.slots[i].midi_cc != ms[(size_t)i].cc) return "slot " + std::to_string(i) + " is bound to controller " + std::to_string(mgr.slots[i].midi_cc) + ", expected " + std::to_string(ms[(size_t)i].cc) + W;
      if (mgr.slots[i].midi_nrpn != ms[(size_t)i].nrpn) return "slot " + std::to_string(i) + " is bound to NRPN " + std::to_string(mgr.slots[i].midi_nrpn) + ", expected " + std::to_string(ms[(size_t)i].nrpn) + W;
    }
    return "";
  };

  // what a complete NRPN (parameter id, 14-bit value) has to do: drive the slot bound to it, or serve the oldest learn request
  complete_nrpn = [&](int id, int vhi, int vlo, const std::string &W) -> std::string {
    std::string e;
    std::vector<int> targets;
    for (int i = 0; i < c.nslots; i++) if (ms[(size_t)i].nrpn == id) targets.push_back(i);
    if (targets.empty()) { int t = model_learn_head(true, id); if (t >= 0) { std::vector<double> vals; if (!(e = check_emission(t, 0.5f, false, vals, W)).empty()) return "NRPN just learned: " + e; } else if (!out.empty()) return "unbound NRPN with nobody waiting produced a message" + W; }
    else {
      // several slots may share an NRPN only through separate learns of the same id, which cannot happen: one target
      std::vector<double> vals;
      float v = (float)(((vhi << 7) + vlo) / 16383.0);
      if (!(e = check_emission(targets[0], v, true, vals, W)).empty()) return "bound NRPN: " + e;
    }
    return "";
  };

  for (size_t oi = 0; oi < c.ops.size(); oi++) {
    const Op &o = c.ops[oi];
    std::string W = " at op " + std::to_string(oi) + D, e;
    if (with_shadow && oi > 0) apply_raw(shadow, c.ops[oi - 1]);
    out.clear();
    bool keep_mono = false;
    switch (o.kind) {
      case 0: {
        mgr.createBinding(o.slot, PARAMS[o.param].path, o.learn);
        MSlot &s = ms[(size_t)o.slot];
        int ind = -1;
        for (int j = 0; j < c.per; j++) if (!s.subs[(size_t)j].used) { ind = j; break; }
        if (ind >= 0) {
          s.used = true;
          MSub &sub = s.subs[(size_t)ind];
          const P &p = PARAMS[o.param];
          sub.used = true; sub.param = o.param; sub.gain = 100; sub.offset = 0;
          sub.pmin = p.type == 'T' ? 0.f : (float)atof(std::to_string(p.mn).c_str());
          sub.pmax = p.type == 'T' ? 1.f : (float)p.mx;
          if (p.log) { sub.pmin = logf((float)p.logmin); sub.pmax = logf((float)p.mx); }
          remap(sub);
          bool waiting = false;
          for (int q : queue) if (q == o.slot) waiting = true;
          if (o.learn && !waiting && s.cc == -1) queue.push_back(o.slot);
        }
        if (!out.empty()) return "createBinding emitted a message" + W;
        break;
      }
      case 7: {
        // binds a parameter at an explicit position, keeping that position's gain/offset; no learn request
        mgr.setSlotSubPath(o.slot, o.sub, PARAMS[o.param].path);
        MSlot &s = ms[(size_t)o.slot];
        s.used = true;
        MSub &sub = s.subs[(size_t)o.sub];
        const P &p = PARAMS[o.param];
        sub.used = true; sub.param = o.param;
        sub.pmin = p.type == 'T' ? 0.f : (float)atof(std::to_string(p.mn).c_str());
        sub.pmax = p.type == 'T' ? 1.f : (float)p.mx;
        if (p.log) { sub.pmin = logf((float)p.logmin); sub.pmax = logf((float)p.mx); }
        remap(sub);
        if (!out.empty()) return "setSlotSubPath emitted a message" + W;
        ctx.count("op.setSlotSubPath");
        break;
      }
      case 1: {
        bool was_waiting = false;
        for (int q : queue) if (q == o.slot) was_waiting = true;
        if (!queue.empty() && !(queue.size() == 1 && was_waiting)) cls_clear_while_waiting = true;
        mgr.clearSlot(o.slot);
        for (size_t k = 0; k < queue.size(); k++) if (queue[k] == o.slot) { queue.erase(queue.begin() + (long)k); break; }
        MSlot &s = ms[(size_t)o.slot];
        s.used = false; s.cc = -1; s.nrpn = -1;
        for (auto &sub : s.subs) sub = MSub();
        break;
      }
      case 2: mgr.clearSlotSub(o.slot, o.sub); ms[(size_t)o.slot].subs[(size_t)o.sub] = MSub(); break;
      case 3: {
        mgr.setSlotSubGain(o.slot, o.sub, (float)o.gain);
        mgr.setSlotSubOffset(o.slot, o.sub, (float)o.offset);
        mgr.updateMapping(o.slot, o.sub);
        MSub &sub = ms[(size_t)o.slot].subs[(size_t)o.sub];
        sub.gain = (float)o.gain; sub.offset = (float)o.offset;
        remap(sub);
        if (o.gain != 100 || o.offset != 0) cls_gain = true;
        break;
      }
      case 4: {
        float v = (float)o.v1000 / 1000.0f;
        mgr.setSlot(o.slot, v);
        std::vector<double> vals;
        if (!(e = check_emission(o.slot, v, true, vals, W)).empty()) return e;
        // monotonic for positive gain: consecutive setSlot on the same slot
        if (last_set_slot == o.slot && vals.size() == last_out.size()) {
          int j = 0;
          for (int sj = 0; sj < c.per; sj++) {
            const MSub &sub = ms[(size_t)o.slot].subs[(size_t)sj];
            if (!sub.used) continue;
            if (sub.gain > 0) {
              double tol = PARAMS[sub.param].log ? 1e-5 * fabs(vals[(size_t)j]) : 0;
              if (v >= last_v && vals[(size_t)j] < last_out[(size_t)j] - tol) return std::string("output for ") + PARAMS[sub.param].path + " decreases (" + std::to_string(last_out[(size_t)j]) + " -> " + std::to_string(vals[(size_t)j]) + ") although the slot value increases (" + std::to_string(last_v) + " -> " + std::to_string(v) + ")" + W;
              if (v <= last_v && vals[(size_t)j] > last_out[(size_t)j] + tol) return std::string("output for ") + PARAMS[sub.param].path + " increases although the slot value decreases" + W;
            }
            j++;
          }
          ctx.count("checked.monotonic_pairs");
        }
        last_set_slot = o.slot; last_v = v; last_out = vals; keep_mono = true;
        break;
      }
      case 5: {
        int id = o.ch * 128 + o.cc;
        mgr.handleMidi(o.ch, o.cc, o.val);
        int target = -1;
        for (int i = 0; i < c.nslots; i++) if (ms[(size_t)i].cc == id) target = i;
        bool learned = false;
        if (target < 0) { target = model_learn_head(false, id); learned = target >= 0; }
        if (target < 0) { if (!out.empty()) return "an unbound controller with nobody waiting for learn produced a message" + W; }
        else {
          std::vector<double> vals;
          float v = (float)(o.val / 127.0);
          if (!(e = check_emission(target, v, !learned, vals, W)).empty()) return (learned ? "controller just learned: " : "bound controller: ") + e;
        }
        break;
      }
      default: {
        // complete NRPN sequence; the first three messages must neither drive nor bind anything
        int seq[4][2] = {{99, o.hi}, {98, o.lo}, {6, o.vhi}, {38, o.vlo}};
        for (int k = 0; k < 3; k++) {
          // the other manager selects an NRPN of its own in the middle of this one's sequence
          if (with_shadow && k == 2) { shadow.handleMidi(0, 99, (o.hi + 1) % 3); shadow.handleMidi(0, 98, (o.lo + 2) % 4); }
          mgr.handleMidi(0, seq[k][0], seq[k][1]);
          if (!out.empty()) return "incomplete NRPN sequence (message " + std::to_string(seq[k][0]) + ") produced a parameter message" + W;
          if (!(e = check_queue(W)).empty()) return "after the incomplete NRPN message " + std::to_string(seq[k][0]) + ": " + e;
        }
        nrpn_primed = true;
        mgr.handleMidi(0, 38, o.vlo);
        sel_hi = o.hi; sel_lo = o.lo; dat_hi = o.vhi; dat_lo = o.vlo;
        if (!(e = complete_nrpn((o.hi << 7) + o.lo, o.vhi, o.vlo, W)).empty()) return e;
        break;
      }
      case 8: {
        // a single control message: selecting (99/98) forgets the data entered for the parameter selected before;
        // data entry (6/38) counts only while a parameter is selected; the controller speaks once all four are known
        // the constructor leaves the NRPN state indeterminate (see DESIGN.md): before the first complete sequence (only in
        // shrunk histories) a single control message is not sent at all
        if (!nrpn_primed) { ctx.count("skipped.single_nrpn_control_message_before_any_sequence"); break; }
        if (with_shadow) shadow.handleMidi(0, o.cc, (o.val + 1) % 3);
        mgr.handleMidi(0, o.cc, o.val);
        if (o.cc == 99) { sel_hi = o.val; dat_hi = dat_lo = -1; }
        else if (o.cc == 98) { sel_lo = o.val; dat_hi = dat_lo = -1; }
        else if (sel_hi >= 0 && sel_lo >= 0) { if (o.cc == 6) dat_hi = o.val; else dat_lo = o.val; }
        ctx.count("class.single_nrpn_control_message");
        if (sel_hi >= 0 && sel_lo >= 0 && dat_hi >= 0 && dat_lo >= 0) {
          ctx.count("class.single_nrpn_control_message.completes");
          if (!(e = complete_nrpn((sel_hi << 7) + sel_lo, dat_hi, dat_lo, W)).empty()) return e;
        } else {
          if (!out.empty()) return "NRPN control message " + std::to_string(o.cc) + " that leaves the sequence incomplete (no data entered since the parameter was selected) produced a parameter message" + W;
          // the queue is compared below
        }
        break;
      }
    }
    if (!keep_mono) last_set_slot = -1;
    if (!(e = check_queue(W)).empty()) return e;
  }
  (void)nrpn_primed;
  if (served >= 2) cls_served2 = true;
  if (cls_clear_while_waiting) ctx.count("class.clear_while_another_waits");
  if (cls_served2) ctx.count("class.two_or_more_learns_served");
  if (cls_gain) ctx.count("class.gain_or_offset_changed");
  if (cls_clear_while_waiting || cls_served2 || cls_gain) ctx.nontriv(vf::fnv(c.describe()));
  return "";
}
std::string vf_enumerate(vf::Ctx &, int, int, long) { return ""; }
VF_MAIN(Case)
