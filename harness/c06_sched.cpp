// C06 - ThreadLink is a lossless FIFO between two threads under every interleaving.
// Writer and reader run as two coroutines; the harness regains control before every atomic load/store and
// before/inside/after every memcpy of thread-link.cpp (forced include common/verif_atomic.h in the 'sched' build).
#include "common/vf.hpp"
#include "common/refosc.hpp"
#include <rtosc/thread-link.h>
#include <rtosc/rtosc.h>
#include <ucontext.h>
#include <memory>

extern "C" {
void __sanitizer_start_switch_fiber(void **fake, const void *bottom, size_t size) __attribute__((weak));
void __sanitizer_finish_switch_fiber(void *fake, const void **bottom_old, size_t *size_old) __attribute__((weak));
}

// ------------------------------------------------------------------ case
struct WOp { int size = 16; int api = 0; template <class A> void io(A &a) { a(size)(api); } };   // api%3: 0 write 1 writeArray 2 raw_write ; api/3: 0 "/m" ,is  1 "/m" ,ib (blob payload)
struct Case {
  int maxmsg = 16, nmsgs = 2;
  std::vector<WOp> wops;
  std::vector<int> rops;       // 0 hasNext+read 1 hasNext 2 hasNextLookahead+read_lookahead 3 hasNextLookahead
  int first = 0;               // who runs first
  int mode = 0;                // 0 explicit choices ; 1 preemption set
  std::vector<int> choices;    // mode 0: 0/1 per decision ; mode 1: sorted decision indices at which to switch
  template <class A> void io(A &a) { a(maxmsg)(nmsgs)(wops)(rops)(first)(mode)(choices); }
  std::string describe() const {
    std::string d = "ThreadLink(" + std::to_string(maxmsg) + "," + std::to_string(nmsgs) + ") writer:";
    for (auto &w : wops) d += " " + std::string(w.api % 3 == 0 ? "w" : w.api % 3 == 1 ? "wa" : "raw") + (w.api / 3 ? "(blob)" : "") + std::to_string(w.size);
    d += " reader:";
    for (int r : rops) d += r == 0 ? " read" : r == 1 ? " has" : r == 2 ? " lread" : " lhas";
    d += mode == 0 ? " schedule(first=" + std::to_string(first) + "):" : " preempt-at(first=" + std::to_string(first) + "):";
    for (size_t i = 0; i < choices.size() && i < 80; i++) d += mode == 0 ? std::string(1, (char)('0' + choices[i])) : " " + std::to_string(choices[i]);
    return d;
  }
};
const char *vf_property() { return "C06"; }
void vf_init() {}

Case vf_generate() {
  Case c;
  c.maxmsg = 16 + 4 * vf::pick<int>(0, 12);
  c.nmsgs = vf::pick<int>(1, 3);
  int nw = vf::sized<int>(1, 8), nr = vf::sized<int>(1, 10);
  for (int i = 0; i < nw; i++) {
    WOp w;
    int k = vf::pickn(10);
    if (k < 6) w.size = 16 + 4 * vf::pickn((c.maxmsg - 16) / 4 + 1);
    else if (k < 8) w.size = c.maxmsg;
    else if (k < 9) w.size = c.maxmsg + 4 * vf::pick<int>(1, 2);          // too long
    else w.size = 16;
    w.api = vf::pickn(3) + 3 * (vf::chance(35) ? 1 : 0);
    c.wops.push_back(w);
  }
  for (int i = 0; i < nr; i++) c.rops.push_back(vf::chance(60) ? 0 : vf::pick<int>(1, 3));
  c.first = vf::pickn(2);
  int style = vf::pickn(3);
  if (style == 0) { c.mode = 0; int n = vf::pick<int>(10, 400); for (int i = 0; i < n; i++) c.choices.push_back(vf::pickn(2)); }
  else if (style == 1) {  // long runs, few switches
    c.mode = 0; int cur = vf::pickn(2);
    int n = vf::pick<int>(10, 400);
    for (int i = 0; i < n; i++) { if (vf::chance(8)) cur ^= 1; c.choices.push_back(cur); }
  } else { c.mode = 1; int k = vf::pick<int>(0, 6); int at = 0; for (int i = 0; i < k; i++) { at += vf::pick<int>(0, 25); c.choices.push_back(at); at++; } }
  return c;
}

// ------------------------------------------------------------------ scheduler
static ucontext_t g_main, g_co[2];
static int g_current = -1;
static bool g_done[2];
static long g_clock = 0;
static std::string g_conflict;
struct Copy { bool active = false; const char *d = nullptr, *s = nullptr; size_t n = 0; };
static Copy g_copy[2];
static const char *g_ring_lo = nullptr, *g_ring_hi = nullptr;   // any heap range the two sides share is fine: compare ranges directly
static long g_yields = 0, g_preempt_nonempty = 0;

static const void *g_main_bottom = nullptr;
static size_t g_main_size = 0;
static void switch_to_main() {
  void *fake = nullptr;
  if (__sanitizer_start_switch_fiber) __sanitizer_start_switch_fiber(&fake, g_main_bottom, g_main_size);
  swapcontext(&g_co[g_current], &g_main);
  if (__sanitizer_finish_switch_fiber) __sanitizer_finish_switch_fiber(fake, &g_main_bottom, &g_main_size);
}
static bool overlap(const char *a, size_t an, const char *b, size_t bn) { return an && bn && a < b + bn && b < a + an; }

extern "C" void verif_yield(int kind, const void *addr, const void *addr2, size_t n) {
  if (g_current < 0) return;   // single-threaded phases (construction, final drain)
  g_yields++;
  int me = g_current, other = 1 - me;
  if (kind == 3) {  // copy begins: conflicting copy of the other side in flight?
    const Copy &o = g_copy[other];
    if (o.active) {
      bool ww = overlap((const char *)addr, n, o.d, o.n), wr = overlap((const char *)addr, n, o.s, o.n), rw = overlap((const char *)addr2, n, o.d, o.n);
      if (ww || wr || rw) g_conflict = "two buffer copies on overlapping bytes are in flight at the same time (" + std::string(ww ? "write/write" : "read/write") + ", " + std::to_string(n) + " and " + std::to_string(o.n) + " bytes)";
    }
    g_copy[me].active = n > 0; g_copy[me].d = (const char *)addr; g_copy[me].s = (const char *)addr2; g_copy[me].n = n;
  }
  if (kind == 5) g_copy[me].active = false;
  switch_to_main();
}

struct Program { std::function<void()> fn; };
static Program *g_prog[2];
static void co_entry(int who) {
  if (__sanitizer_finish_switch_fiber) __sanitizer_finish_switch_fiber(nullptr, &g_main_bottom, &g_main_size);
  g_prog[who]->fn();
  g_done[who] = true;
  if (__sanitizer_start_switch_fiber) __sanitizer_start_switch_fiber(nullptr, g_main_bottom, g_main_size);   // fiber ends: no fake stack to keep
  swapcontext(&g_co[who], &g_main);
}

// ------------------------------------------------------------------ records
struct WRec { int seq, size; long b, e; bool toolong; };
struct RRec { bool lookahead; int seq; bool intact; long b, e; };
struct HRec { bool lookahead, result; long b, e; size_t reads_before; };

static int blob_len(int seq, int size) { return size <= 16 ? 0 : size - 16 - seq % 4; }
static std::string make_msg(int seq, int size, int shape) {
  refosc::Val a, s;
  a.t = 'i'; a.u = (uint32_t)seq;
  if (shape == 1) {
    s.t = 'b';
    int L = blob_len(seq, size);
    for (int i = 0; i < L; i++) s.s += (char)((seq * 11 + i * 3) & 0xff);
    return refosc::encode("/m", "ib", {a, s});
  }
  s.t = 's';
  int L = size - 13;
  for (int i = 0; i < L; i++) s.s += (char)('a' + (seq * 7 + i) % 26);
  return refosc::encode("/m", "is", {a, s});
}

static const size_t STACK = 256 * 1024;
static std::unique_ptr<char[]> g_stack[2];

struct Outcome { std::string fail; long yields = 0; long decisions = 0; bool wrap = false, dropped_full = false, preempt_nonempty = false; };

static Outcome execute(const Case &c) {
  Outcome out;
  rtosc::ThreadLink tl((size_t)c.maxmsg, (size_t)c.nmsgs);
  std::vector<WRec> W;
  std::vector<RRec> R;
  std::vector<HRec> H;
  std::vector<std::string> msgs;
  std::vector<std::unique_ptr<char[]>> rawbuf;
  for (size_t i = 0; i < c.wops.size(); i++) {
    msgs.push_back(make_msg((int)i + 1, c.wops[i].size, c.wops[i].api / 3));
    rawbuf.emplace_back(new char[msgs.back().size() + 8]);
    memset(rawbuf.back().get(), 0, msgs.back().size() + 8);
    memcpy(rawbuf.back().get(), msgs.back().data(), msgs.back().size());
  }
  size_t normal_reads = 0;
  Program pw, pr;
  pw.fn = [&] {
    for (size_t i = 0; i < c.wops.size(); i++) {
      WRec r; r.seq = (int)i + 1; r.size = c.wops[i].size; r.toolong = c.wops[i].size > c.maxmsg; r.b = g_clock;
      const int call = c.wops[i].api % 3, shape = c.wops[i].api / 3;
      if (shape == 1) {
        std::string payload = msgs[i].substr(16, (size_t)blob_len((int)i + 1, c.wops[i].size));
        if (call == 0) tl.write("/m", "ib", (int)i + 1, (int32_t)payload.size(), payload.data());
        else if (call == 1) { rtosc_arg_t a[2]; a[0].i = (int)i + 1; a[1].b.len = (int32_t)payload.size(); a[1].b.data = (uint8_t *)&payload[0]; tl.writeArray("/m", "ib", a); }
        else tl.raw_write(rawbuf[i].get());
      } else {
        std::string payload = msgs[i].substr(12, (size_t)c.wops[i].size - 13);
        if (call == 0) tl.write("/m", "is", (int)i + 1, payload.c_str());
        else if (call == 1) { rtosc_arg_t a[2]; a[0].i = (int)i + 1; a[1].s = payload.c_str(); tl.writeArray("/m", "is", a); }
        else tl.raw_write(rawbuf[i].get());
      }
      r.e = g_clock;
      W.push_back(r);
    }
  };
  auto take = [&](const char *m, bool la, long b) {
    RRec r; r.lookahead = la; r.b = b; r.e = g_clock; r.seq = -1; r.intact = false;
    size_t l = rtosc_message_length(m, (size_t)c.maxmsg);
    if (l >= 16 && !strcmp(m, "/m") && (!strcmp(rtosc_argument_string(m), "is") || !strcmp(rtosc_argument_string(m), "ib"))) {
      int seq = rtosc_argument(m, 0).i;
      r.seq = seq;
      if (seq >= 1 && seq <= (int)msgs.size() && l == msgs[(size_t)seq - 1].size() && !memcmp(m, msgs[(size_t)seq - 1].data(), l)) r.intact = true;
    }
    R.push_back(r);
  };
  pr.fn = [&] {
    for (int op : c.rops) {
      bool la = op >= 2;
      HRec h; h.lookahead = la; h.b = g_clock; h.reads_before = normal_reads;
      h.result = la ? tl.hasNextLookahead() : tl.hasNext();
      h.e = g_clock;
      H.push_back(h);
      if ((op == 0 || op == 2) && h.result) {
        long b = g_clock;
        const char *m = la ? tl.read_lookahead() : tl.read();
        take(m, la, b);
        if (!la) normal_reads++;
      }
    }
  };
  g_prog[0] = &pw; g_prog[1] = &pr;
  g_done[0] = g_done[1] = false;
  g_clock = 0; g_conflict.clear(); g_yields = 0;
  g_copy[0] = g_copy[1] = Copy();
  for (int i = 0; i < 2; i++) {
    if (!g_stack[i]) g_stack[i].reset(new char[STACK]);
    getcontext(&g_co[i]);
    g_co[i].uc_stack.ss_sp = g_stack[i].get();
    g_co[i].uc_stack.ss_size = STACK;
    g_co[i].uc_link = &g_main;
    makecontext(&g_co[i], (void (*)())co_entry, 1, i);
  }
  int cur = c.first;
  size_t ci = 0;
  long decision = 0;
  while (!g_done[0] || !g_done[1]) {
    int next;
    if (c.mode == 0) {
      next = ci < c.choices.size() ? c.choices[ci++] : cur;
    } else {
      next = cur;
      if (ci < c.choices.size() && c.choices[ci] == decision) { next = 1 - cur; ci++; }
    }
    if (g_done[next]) next = 1 - next;
    cur = next;
    decision++;
    g_clock++;
    g_current = next;
    void *fake = nullptr;
    if (__sanitizer_start_switch_fiber) __sanitizer_start_switch_fiber(&fake, g_stack[next].get(), STACK);
    swapcontext(&g_main, &g_co[next]);
    if (__sanitizer_finish_switch_fiber) __sanitizer_finish_switch_fiber(fake, nullptr, nullptr);
    g_current = -1;
    if (!g_conflict.empty()) { out.fail = g_conflict; break; }
    if (decision > 200000) { out.fail = "schedule does not terminate (an operation spins)"; break; }
  }
  out.yields = g_yields;
  out.decisions = decision;
  if (!out.fail.empty()) return out;
  // ---- final drain, single-threaded
  g_clock += 10;
  size_t drained_from = R.size();
  while (tl.hasNext()) {
    long b = g_clock;
    take(tl.read(), false, b);
    if (R.size() - drained_from > c.wops.size() + 2) { out.fail = "draining the queue after the run never ends"; return out; }
  }
  // ---- oracle (a): FIFO over normal reads
  std::vector<int> order;
  for (auto &r : R) {
    if (r.lookahead) continue;
    if (r.seq < 1 || r.seq > (int)msgs.size()) { out.fail = "read returned something that was never written (not a /m message of this run)"; return out; }
    if (!r.intact) { out.fail = "read returned message #" + std::to_string(r.seq) + " with different bytes than written (torn or corrupted)"; return out; }
    if (!order.empty() && r.seq <= order.back()) { out.fail = "read returned message #" + std::to_string(r.seq) + " after #" + std::to_string(order.back()) + " (duplicated or reordered)"; return out; }
    order.push_back(r.seq);
  }
  std::vector<bool> accepted(msgs.size() + 1, false);
  for (int s : order) accepted[(size_t)s] = true;
  // lookahead reads: same sequence without consuming; a normal read resynchronises
  {
    size_t nread = 0, la = 0;
    for (auto &r : R) {
      if (!r.lookahead) { nread++; la = nread; continue; }
      if (la >= order.size()) { out.fail = "lookahead read returned a message (#" + std::to_string(r.seq) + ") beyond everything that was accepted"; return out; }
      if (r.seq != order[la] || !r.intact) { out.fail = "lookahead read returned #" + std::to_string(r.seq) + (r.intact ? "" : " (corrupted)") + ", the next unconsumed-by-lookahead message is #" + std::to_string(order[la]); return out; }
      la++;
    }
  }
  // ---- oracle (b): acceptance bounds
  {
    const long cap = (long)c.maxmsg * c.nmsgs - 1;
    for (auto &w : W) {
      bool acc = accepted[(size_t)w.seq];
      if (w.toolong) { if (acc) { out.fail = "message #" + std::to_string(w.seq) + " (" + std::to_string(w.size) + " bytes) exceeds the maximum message size " + std::to_string(c.maxmsg) + " but was queued"; return out; } continue; }
      long pess = 0, opt = 0;   // bytes in the ring as seen most pessimistically / optimistically by this write
      for (auto &p : W) {
        if (p.seq >= w.seq || !accepted[(size_t)p.seq]) continue;
        // when was p consumed (normal read)?
        long rb = -1, re = -1;
        for (auto &r : R) if (!r.lookahead && r.seq == p.seq) { rb = r.b; re = r.e; }
        bool consumed_before_begin = re >= 0 && re < w.b;      // read completed before the write began
        bool started_before_end = rb >= 0 && rb <= w.e;        // read started before the write ended
        if (!consumed_before_begin) pess += p.size;
        if (!started_before_end) opt += p.size;
      }
      if (w.size <= cap - pess && !acc) { out.fail = "message #" + std::to_string(w.seq) + " (" + std::to_string(w.size) + " bytes) fit into the free space (" + std::to_string(cap - pess) + " bytes even if no concurrent read had progressed) but was lost"; return out; }
      if (w.size > cap - opt && acc) { out.fail = "message #" + std::to_string(w.seq) + " (" + std::to_string(w.size) + " bytes) was accepted although at most " + std::to_string(cap - opt) + " bytes could be free"; return out; }
      if (!acc) out.dropped_full = true;
    }
  }
  // ---- oracle (c): hasNext
  for (auto &h : H) {
    if (h.lookahead) continue;   // lookahead emptiness is checked through the sequence above
    bool must_true = false, may_true = false;
    for (auto &w : W) {
      if (!accepted[(size_t)w.seq]) continue;
      size_t pos = 0;
      for (size_t k = 0; k < order.size(); k++) if (order[k] == w.seq) pos = k;
      if (pos < h.reads_before) continue;           // consumed before this hasNext (reader program order)
      if (w.e < h.b) must_true = true;              // write completed before hasNext started
      if (w.b <= h.e) may_true = true;              // write began before hasNext ended
    }
    if (must_true && !h.result) { out.fail = "hasNext() returned false although a message accepted earlier had not been consumed"; return out; }
    if (!may_true && h.result) { out.fail = "hasNext() returned true although everything accepted had been consumed"; return out; }
  }
  // classification: wrap-around happened if the sum of accepted sizes exceeds the ring size
  long sum = 0;
  for (auto &w : W) if (accepted[(size_t)w.seq]) sum += w.size;
  out.wrap = sum > (long)c.maxmsg * c.nmsgs;
  return out;
}

std::string vf_run(const Case &c, vf::Ctx &ctx) {
  Outcome o = execute(c);
  if (!o.fail.empty()) return o.fail + " | " + c.describe();
  ctx.count("yields", (uint64_t)o.yields);
  ctx.count("schedules");
  if (o.wrap) ctx.count("class.wrap_around");
  if (o.dropped_full) ctx.count("class.dropped_because_full");
  int switches = 0;
  if (c.mode == 0) { for (size_t i = 1; i < c.choices.size() && (long)i < o.decisions; i++) if (c.choices[i] != c.choices[i - 1]) switches++; }
  else switches = (int)c.choices.size();
  if (switches >= 1 || o.wrap || o.dropped_full) ctx.nontriv(vf::fnv(c.describe()));
  return "";
}

// ------------------------------------------------------------------ exhaustive tier: all schedules with <= k preemptions
static std::string enum_rec(Case &c, int k, long from, vf::Ctx &ctx, uint64_t &count, int worker, int nworkers) {
  // run with the current preemption set, learn the number of decisions, then extend
  Outcome o = execute(c);
  count++;
  if (!o.fail.empty()) return o.fail;
  ctx.record(!c.choices.empty() || o.wrap || o.dropped_full, vf::fnv(c.describe()), [&] { return c.describe(); });
  if (k == 0) return "";
  long T = o.decisions;
  for (long p = from; p < T; p++) {
    if (c.choices.empty() && (int)(p % nworkers) != worker) continue;   // split the first preemption point across workers
    c.choices.push_back((int)p);
    std::string r = enum_rec(c, k - 1, p + 1, ctx, count, worker, nworkers);
    if (!r.empty()) return r;
    c.choices.pop_back();
  }
  return "";
}
std::string vf_enumerate(vf::Ctx &ctx, int worker, int nworkers, long budget) {
  int k = (int)budget;
  struct Hst { int maxmsg, nmsgs; std::vector<int> ws; std::vector<int> rs; int blob = 0; };
  std::vector<Hst> hs = {
      {16, 1, {16}, {0}},                       // 1 write || hasNext+read
      {16, 2, {16, 16}, {0, 0}},                // second write needs the first read when the ring is 31 bytes
      {16, 2, {16, 16, 16}, {0, 0}},            // full ring, drop, wrap
      {20, 2, {16, 20, 16}, {0, 0}},            // wrap-around copy split in two
      {16, 2, {16, 16}, {2, 0, 2}},             // lookahead, then resynchronising read
      {16, 2, {20, 16}, {0, 1}},                // over-long message is dropped whole
      {24, 1, {16, 16}, {0, 0}},                // single-message ring
      {24, 2, {16, 24, 24}, {0, 0, 0}, 1},      // blob messages, the third one wraps around inside its blob
  };
  uint64_t count = 0;
  for (size_t h = 0; h < hs.size(); h++)
    for (int api = 0; api < 3; api++)
      for (int first = 0; first < 2; first++) {
        Case c;
        c.maxmsg = hs[h].maxmsg; c.nmsgs = hs[h].nmsgs;
        for (int s : hs[h].ws) { WOp w; w.size = s; w.api = api + 3 * (hs[h].blob && s > 16); c.wops.push_back(w); }
        c.rops = hs[h].rs;
        c.first = first; c.mode = 1;
        int kk = (h == 0 && k >= 3) ? 64 : k;    // thorough: the tiny history gets every schedule (bound above the number of decisions)
        std::string r = enum_rec(c, kk, 0, ctx, count, worker, nworkers);
        if (!r.empty()) {
          char name[64]; snprintf(name, sizeof name, "/violation-enum-%d.case", worker);
          vf::write_file(vf::G().outdir + name, vf::serialize(c, vf_property()) + "# failure: " + vf::esc(r) + "\n");
          return r + " | " + c.describe();
        }
      }
  ctx.count("enum.schedules", count);
  if (worker == 0) { ctx.count("enum.histories", hs.size() * 6); ctx.count("max.enum_preemption_bound", (uint64_t)k); }
  return "";
}
VF_MAIN(Case)
