// C17 - port metadata is read back exactly as written.
#include "common/vf.hpp"
#include <rtosc/ports.h>
#include <rtosc/port-sugar.h>
#include <memory>

struct Entry {
  std::string key, value;
  bool has_value = false;
  template <class A> void io(A &a) { a(key)(value)(has_value); }
};
struct Case {
  std::vector<Entry> entries;
  std::vector<std::string> probes;  // extra keys to look up (absent, prefixes, extensions)
  std::vector<Entry> entries2;      // a second block, written into the storage the first one was read from (may be empty: not done)
  std::vector<std::string> bare;    // per entry of 'entries': a string without '=' that follows a value-less key, as rSpecial(x) makes (":special\0x\0"); "" = none
  template <class A> void io(A &a) { a(entries)(probes); if (a.more()) a(entries2); if (a.more()) a(bare); }   // optional trailing fields
  std::string describe() const {
    std::string d = "block=\"";
    for (size_t i = 0; i < entries.size(); i++) { auto &e = entries[i]; d += ":" + vf::esc(e.key) + "\\0"; if (e.has_value) d += "=" + vf::esc(e.value) + "\\0"; if (i < bare.size() && !bare[i].empty()) d += vf::esc(bare[i]) + "\\0"; }
    d += "\" probes=[";
    for (auto &p : probes) d += "\"" + vf::esc(p) + "\" ";
    d += "]";
    if (!entries2.empty()) {
      d += " then in the same storage block=\"";
      for (auto &e : entries2) { d += ":" + vf::esc(e.key) + "\\0"; if (e.has_value) d += "=" + vf::esc(e.value) + "\\0"; }
      d += "\"";
    }
    return d;
  }
};
const char *vf_property() { return "C17"; }
void vf_init() {}

static const std::string AL = "ab:= 01";
static std::string gen_key() {
  std::string k;
  int style = vf::pickn(4);
  if (style == 0) { k = vf::oneof<std::string>({"min", "max", "map 0", "map 1", "documentation", "parameter", "default", "a", "b"}); return k; }
  do { k = vf::strover(AL, 1, 5); } while (k[0] == ':');
  return k;
}

static void gen_entries(std::vector<Entry> &out, int n) {
  for (int i = 0; i < n; i++) {
    Entry e;
    if (i > 0 && vf::chance(25)) e.key = out[(size_t)vf::pickn(i)].key;  // repeated key
    else e.key = gen_key();
    e.has_value = vf::chance(65);
    if (e.has_value) e.value = vf::chance(20) ? "" : vf::strover(AL, 0, 6);
    out.push_back(e);
  }
}
Case vf_generate() {
  Case c;
  int n = vf::sized<int>(1, 8);
  gen_entries(c.entries, n);
  if (vf::chance(40)) gen_entries(c.entries2, vf::sized<int>(1, 8));
  if (vf::chance(30)) {
    c.bare.assign(c.entries.size(), "");
    for (size_t i = 0; i < c.entries.size(); i++)
      if (vf::chance(c.entries[i].has_value ? 25 : 60)) c.bare[i] = std::string(1, "ab 01"[vf::pickn(5)]) + vf::strover(AL, 0, 4);
  }
  int np = vf::pick<int>(0, 4);
  for (int i = 0; i < np; i++) {
    const std::string &k = c.entries[(size_t)vf::pickn(n)].key;
    switch (vf::pickn(4)) {
      case 0: c.probes.push_back(k.substr(0, k.size() - 1)); break;       // proper prefix
      case 1: c.probes.push_back(k + AL[(size_t)vf::pickn((int)AL.size())]); break;  // extension
      case 2: c.probes.push_back(gen_key()); break;
      default: c.probes.push_back(c.entries[(size_t)vf::pickn(n)].value); break;     // a value used as key
    }
  }
  return c;
}

static std::string block_of(const std::vector<Entry> &entries, const std::vector<std::string> *bare = nullptr) {
  std::string block;
  for (size_t i = 0; i < entries.size(); i++) {
    auto &e = entries[i];
    block += ":" + e.key;
    block.push_back('\0');
    if (e.has_value) { block += "=" + e.value; block.push_back('\0'); }
    if (bare && i < bare->size() && !(*bare)[i].empty()) { block += (*bare)[i]; block.push_back('\0'); }   // a further string that starts no entry (rSpecial's text, a value continued in a second string)
  }
  block.push_back('\0');  // terminator (the implicit NUL of the string literal the macros produce)
  return block;
}
// storage: where the block is placed (NULL: an exact-size heap block of its own)
static std::string run_block(const std::vector<Entry> &entries, const std::vector<std::string> &probes, char *storage, const std::vector<std::string> *bare = nullptr) {
  struct { const std::vector<Entry> &entries; const std::vector<std::string> &probes; } c{entries, probes};
  std::string block = block_of(entries, bare);
  std::unique_ptr<char[]> hb(storage ? nullptr : new char[block.size()]);
  char *at = storage ? storage : hb.get();
  memcpy(at, block.data(), block.size());
  rtosc::Port port{"p", at, nullptr, nullptr};
  auto meta = port.meta();

  // iteration
  size_t i = 0;
  for (auto it = meta.begin(); it != meta.end(); ++it, ++i) {
    if (i >= c.entries.size()) return "iteration yields more than the " + std::to_string(c.entries.size()) + " entries written";
    const Entry &e = c.entries[i];
    if (!it.title || e.key != it.title) return "entry " + std::to_string(i) + ": title \"" + vf::esc(it.title ? it.title : "(null)") + "\" != \"" + vf::esc(e.key) + "\"";
    if (e.has_value) {
      if (!it.value) return "entry " + std::to_string(i) + " (\"" + vf::esc(e.key) + "\"): value missing, expected \"" + vf::esc(e.value) + "\"";
      if (e.value != it.value) return "entry " + std::to_string(i) + ": value \"" + vf::esc(it.value) + "\" != \"" + vf::esc(e.value) + "\"";
    } else if (it.value) return "entry " + std::to_string(i) + " (\"" + vf::esc(e.key) + "\") has no value but iteration reports \"" + vf::esc(it.value) + "\"";
    if (i > 64) return "iteration does not terminate";
  }
  if (i != c.entries.size()) return "iteration yields " + std::to_string(i) + " entries, " + std::to_string(c.entries.size()) + " were written";

  // lookup / find for every written key and every probe
  std::vector<std::string> keys;
  for (auto &e : c.entries) keys.push_back(e.key);
  for (auto &p : c.probes) keys.push_back(p);
  for (auto &k : keys) {
    const Entry *first = nullptr;
    for (auto &e : c.entries) if (e.key == k) { first = &e; break; }
    const char *v = meta[k.c_str()];
    auto f = meta.find(k.c_str());
    bool present = (bool)f;
    if (present != (first != nullptr)) return "find(\"" + vf::esc(k) + "\") reports " + (present ? "present" : "absent") + " but the key is " + (first ? "present" : "absent");
    if (first && f.title && k != f.title) return "find(\"" + vf::esc(k) + "\") returns entry titled \"" + vf::esc(f.title) + "\"";
    if (!first || !first->has_value) {
      if (v) return "meta[\"" + vf::esc(k) + "\"] = \"" + vf::esc(v) + "\" but the first entry with that key " + (first ? "has no value" : "does not exist");
    } else {
      if (!v) return "meta[\"" + vf::esc(k) + "\"] is NULL, expected \"" + vf::esc(first->value) + "\"";
      if (first->value != v) return "meta[\"" + vf::esc(k) + "\"] = \"" + vf::esc(v) + "\", expected the first entry's value \"" + vf::esc(first->value) + "\"";
    }
  }
  size_t len = meta.length();
  if (len != block.size()) return "length() = " + std::to_string(len) + " != block byte length " + std::to_string(block.size());
  // a container made from the raw metadata pointer (the block still has its leading ':') reads the same entries
  {
    rtosc::Port::MetaContainer raw(at);
    size_t k = 0;
    for (auto it = raw.begin(); it != raw.end(); ++it, ++k) {
      if (k >= c.entries.size()) return "a container built from the raw block pointer yields more than the " + std::to_string(c.entries.size()) + " entries written";
      if (!it.title || c.entries[k].key != it.title) return "a container built from the raw block pointer: entry " + std::to_string(k) + " has title \"" + vf::esc(it.title ? it.title : "(null)") + "\", written \"" + vf::esc(c.entries[k].key) + "\"";
      if (k > 64) return "iteration does not terminate";
    }
    if (k != c.entries.size()) return "a container built from the raw block pointer yields " + std::to_string(k) + " entries, " + std::to_string(c.entries.size()) + " were written";
    for (auto &key : keys) {
      bool present = false;
      for (auto &e : c.entries) if (e.key == key) present = true;
      if ((bool)raw.find(key.c_str()) != present) return "a container built from the raw block pointer: find(\"" + vf::esc(key) + "\") reports " + (present ? "absent" : "present");
    }
  }
  return "";
}

// metadata written by the library's own macros: rOptions lists of every supported length (1..24 symbols) between two
// other entries read back as "map <k>" = symbol k, in order (compile-time input: checked once per process)
#define OPT_PORT(n, ...) {"o" #n "::i", rProp(parameter) rOptions(__VA_ARGS__) rDoc("d"), nullptr, nullptr}
static const rtosc::Port OPTPORTS[] = {
    OPT_PORT(1, s0), OPT_PORT(2, s0, s1), OPT_PORT(3, s0, s1, s2), OPT_PORT(4, s0, s1, s2, s3), OPT_PORT(8, s0, s1, s2, s3, s4, s5, s6, s7),
    OPT_PORT(15, s0, s1, s2, s3, s4, s5, s6, s7, s8, s9, s10, s11, s12, s13, s14),
    OPT_PORT(16, s0, s1, s2, s3, s4, s5, s6, s7, s8, s9, s10, s11, s12, s13, s14, s15),
    OPT_PORT(17, s0, s1, s2, s3, s4, s5, s6, s7, s8, s9, s10, s11, s12, s13, s14, s15, s16),
    OPT_PORT(20, s0, s1, s2, s3, s4, s5, s6, s7, s8, s9, s10, s11, s12, s13, s14, s15, s16, s17, s18, s19),
    OPT_PORT(21, s0, s1, s2, s3, s4, s5, s6, s7, s8, s9, s10, s11, s12, s13, s14, s15, s16, s17, s18, s19, s20),
    OPT_PORT(22, s0, s1, s2, s3, s4, s5, s6, s7, s8, s9, s10, s11, s12, s13, s14, s15, s16, s17, s18, s19, s20, s21),
    OPT_PORT(23, s0, s1, s2, s3, s4, s5, s6, s7, s8, s9, s10, s11, s12, s13, s14, s15, s16, s17, s18, s19, s20, s21, s22),
    OPT_PORT(24, s0, s1, s2, s3, s4, s5, s6, s7, s8, s9, s10, s11, s12, s13, s14, s15, s16, s17, s18, s19, s20, s21, s22, s23),
};
static std::string check_macro_blocks() {
  for (auto &p : OPTPORTS) {
    int n = atoi(p.name + 1);
    auto meta = p.meta();
    int maps = 0;
    for (auto it = meta.begin(); it != meta.end(); ++it) {
      if (!it.title || strncmp(it.title, "map ", 4)) continue;
      std::string want = "s" + std::to_string(maps);
      if (atoi(it.title + 4) != maps || !it.value || want != it.value) return "rOptions of " + std::to_string(n) + " symbols: entry " + std::to_string(maps) + " reads back as \"" + it.title + "\"=\"" + (it.value ? it.value : "(null)") + "\"";
      maps++;
    }
    if (maps != n) return "rOptions of " + std::to_string(n) + " symbols reads back as " + std::to_string(maps) + " map entries";
    std::string last = "map " + std::to_string(n - 1);
    if (!meta[last.c_str()] || std::string(meta[last.c_str()]) != "s" + std::to_string(n - 1)) return "rOptions of " + std::to_string(n) + " symbols: lookup of \"" + last + "\" fails";
    if (!meta.find("documentation") || !meta["documentation"] || strcmp(meta["documentation"], "d")) return "rOptions of " + std::to_string(n) + " symbols: the entry behind the list is lost";
  }
  return "";
}

std::string vf_run(const Case &c, vf::Ctx &ctx) {
  { static bool done = false; if (!done) { std::string m = check_macro_blocks(); if (!m.empty()) return m; done = true; ctx.count("macro_blocks_checked"); } }
  std::string r = run_block(c.entries, c.probes, nullptr, &c.bare);
  if (!r.empty()) return r;
  for (auto &b : c.bare) if (!b.empty()) { ctx.count("class.key_followed_by_bare_string"); break; }
  if (!c.entries2.empty()) {
    // metadata is plain bytes: a second block placed where the first one was read from reads back as itself
    std::string b1 = block_of(c.entries, &c.bare), b2 = block_of(c.entries2);
    std::unique_ptr<char[]> st(new char[std::max(b1.size(), b2.size())]);
    if (!(r = run_block(c.entries, c.probes, st.get(), &c.bare)).empty()) return "first block in shared storage: " + r;
    if (!(r = run_block(c.entries2, c.probes, st.get())).empty()) return "second block in the same storage: " + r;
    ctx.count("class.second_block_in_same_storage");
  }
  std::string block = block_of(c.entries, &c.bare);

  bool special = false, repeated = false, valueless = false;
  for (size_t a = 0; a < c.entries.size(); a++) {
    const Entry &e = c.entries[a];
    if (e.key.find_first_of(":= ") != std::string::npos || e.value.find_first_of(":=") != std::string::npos || (e.has_value && e.value.empty())) special = true;
    if (!e.has_value) valueless = true;
    for (size_t b = 0; b < a; b++) if (c.entries[b].key == e.key) repeated = true;
  }
  if (special) ctx.count("class.special_chars_or_empty_value");
  if (repeated) ctx.count("class.repeated_key");
  if (valueless) ctx.count("class.valueless_entry");
  ctx.count("entries." + std::to_string(c.entries.size()));
  if (c.entries.size() >= 2 && (special || repeated || valueless)) {
    uint64_t h = vf::fnv(block);
    for (auto &p : c.probes) h = vf::fnv(p, h);
    ctx.nontriv(h);
  }
  return "";
}
std::string vf_enumerate(vf::Ctx &, int, int, long) { return ""; }
VF_MAIN(Case)
