// C07 - validation of untrusted bytes. libFuzzer target (raw + structure-aware decode), also usable as
// a plain program:  c07 --enum <k> <n> <budget> <outdir>   (exhaustive tiny buffers)
// Oracle: length/validity read inside n bytes (exact-size heap copy, ASan), length in {0} u [1,n];
// when the validator accepts, every accessor stays inside and agrees with the strict reference decoder.
#include <fuzzer/FuzzedDataProvider.h>
#include "common/vf.hpp"
#include "common/refosc.hpp"
#include <rtosc/rtosc.h>
#include <memory>

static vf::Ctx &ctx() { return vf::G().ctx; }
static std::string g_fail;

[[noreturn]] static void violation(const std::string &why, const std::string &bytes) {
  // the failing *byte string* is the replay unit (mode byte 0xff = raw)
  std::string file = std::string(1, (char)0xff) + bytes;
  char name[96];
  snprintf(name, sizeof name, "/violation-%016llx.bin", (unsigned long long)vf::fnv(file));
  vf::write_file(vf::G().outdir + name, file);
  fprintf(stderr, "C07-ORACLE-FAIL: %s\n  input(%zu bytes)=%s\n", why.c_str(), bytes.size(), vf::esc(bytes).c_str());
  vf::G().failures_seen++;
  vf::G().last_failure_msg = why;
  vf::write_stats("failed");
  __builtin_trap();
}

static bool inside(const void *p, size_t len, const char *m, size_t n) {
  const char *c = (const char *)p;
  return c >= m && c <= m + n && len <= (size_t)(m + n - c);
}

static void check_bytes(const std::string &bytes) {
  const size_t n = bytes.size();
  std::unique_ptr<char[]> hb(new char[n ? n : 1]);
  char *m = n ? hb.get() : hb.get() + 1;
  if (n) memcpy(m, bytes.data(), n);
  vf::G().current_case = bytes;

  size_t L = rtosc_message_length(m, n);
  if (L > n) violation("rtosc_message_length reports " + std::to_string(L) + " > n=" + std::to_string(n), bytes);
  bool V = rtosc_valid_message_p(m, n);
  ctx().evaluations++;
  if (!V) {
    // non-trivial rejected input: a reference-decodable prefix of >= 8 bytes exists
    if (n >= 8 && m[0] == '/') {
      ctx().count("rejected.with_slash");
      ctx().nontrivial.size() < ctx().hash_cap ? (void)ctx().nontrivial.insert(vf::fnv(bytes)) : (void)(ctx().hash_overflow = true);
      ctx().nontrivial_hits++;
    } else ctx().count("rejected.other");
    return;
  }
  if (L != n) violation("validator accepts but rtosc_message_length=" + std::to_string(L) + " != n=" + std::to_string(n), bytes);
  ctx().count("accepted");
  refosc::Decoded d = refosc::decode((const unsigned char *)bytes.data(), n);
  if (d.st == refosc::MALFORMED) violation("validator accepts bytes the reference decoder rejects: " + d.reason, bytes);

  const char *as = rtosc_argument_string(m);
  if (!inside(as, 1, m, n)) violation("argument string outside buffer", bytes);
  size_t aslen = strnlen(as, (size_t)(m + n - as));
  if (aslen == (size_t)(m + n - as)) violation("argument string not terminated inside buffer", bytes);
  unsigned cnt = rtosc_narguments(m);
  if (d.st == refosc::OK) {
    if (d.tags != std::string(as, aslen)) violation("argument string \"" + vf::esc(std::string(as, aslen)) + "\" != decoder's \"" + vf::esc(d.tags) + "\"", bytes);
    if (cnt != d.vals.size()) violation("rtosc_narguments=" + std::to_string(cnt) + " != decoder's " + std::to_string(d.vals.size()), bytes);
  } else ctx().count("accepted.undecodable_tag");

  auto check_arg = [&](const char *what, size_t i, char t, const rtosc_arg_t &a) {
    uint64_t sum = 0;
    if (t == 's' || t == 'S') {
      if (!inside(a.s, 1, m, n)) violation(std::string(what) + ": string pointer outside buffer (arg " + std::to_string(i) + ")", bytes);
      size_t sl = strlen(a.s);  // ASan guards the exact-size block
      if (!inside(a.s, sl + 1, m, n)) violation(std::string(what) + ": string runs outside buffer", bytes);
    } else if (t == 'b') {
      if (a.b.len < 0) violation(std::string(what) + ": negative blob length " + std::to_string(a.b.len) + " (arg " + std::to_string(i) + ")", bytes);
      if (!inside(a.b.data, (size_t)a.b.len, m, n)) violation(std::string(what) + ": blob payload outside buffer (arg " + std::to_string(i) + ")", bytes);
      for (int k = 0; k < a.b.len; k++) sum += a.b.data[k];
    }
    (void)sum;
    if (d.st != refosc::OK) return;
    if (i >= d.vals.size()) violation(std::string(what) + ": more arguments than the decoder sees", bytes);
    const refosc::DVal &v = d.vals[i];
    if (t != v.t) violation(std::string(what) + ": type of arg " + std::to_string(i) + " is '" + std::string(1, t) + "', decoder says '" + std::string(1, v.t) + "'", bytes);
    switch (t) {
      case 'i': case 'c': case 'r': case 'f':
        if ((uint32_t)a.i != (uint32_t)v.u) violation(std::string(what) + ": 32-bit value of arg " + std::to_string(i) + " differs from decoder", bytes);
        break;
      case 'h': case 't': case 'd':
        if (a.t != v.u) violation(std::string(what) + ": 64-bit value of arg " + std::to_string(i) + " differs from decoder", bytes);
        break;
      case 'm': {
        uint32_t g = ((uint32_t)a.m[0] << 24) | ((uint32_t)a.m[1] << 16) | ((uint32_t)a.m[2] << 8) | a.m[3];
        if (g != (uint32_t)v.u) violation(std::string(what) + ": midi value of arg " + std::to_string(i) + " differs from decoder", bytes);
        break;
      }
      case 's': case 'S':
        if ((size_t)(a.s - m) != v.off || strlen(a.s) != v.len) violation(std::string(what) + ": string arg " + std::to_string(i) + " at offset " + std::to_string(a.s - m) + " len " + std::to_string(strlen(a.s)) + ", decoder says offset " + std::to_string(v.off) + " len " + std::to_string(v.len), bytes);
        break;
      case 'b':
        if ((size_t)((const char *)a.b.data - m) != v.off || (size_t)a.b.len != v.len) violation(std::string(what) + ": blob arg " + std::to_string(i) + " differs from decoder (offset/length)", bytes);
        break;
      case 'T': if (a.T != 1) violation("T not true", bytes); break;
      case 'F': if (a.T != 0) violation("F not false", bytes); break;
      default: break;
    }
  };

  size_t yields = 0;
  for (rtosc_arg_itr_t it = rtosc_itr_begin(m); !rtosc_itr_end(it);) {
    if (!inside(it.type_pos, 1, m, n)) violation("iterator type position outside buffer", bytes);
    rtosc_arg_val_t av = rtosc_itr_next(&it);
    check_arg("iterator", yields, av.type, av.val);
    if (++yields > n) violation("iterator does not terminate", bytes);
  }
  if (d.st == refosc::OK && yields != d.vals.size()) violation("iterator yields " + std::to_string(yields) + " values, decoder sees " + std::to_string(d.vals.size()), bytes);
  for (unsigned i = 0; i < cnt; i++) {
    char t = rtosc_type(m, i);
    rtosc_arg_t a = rtosc_argument(m, i);
    check_arg("rtosc_argument", i, t, a);
  }
  bool hasval = false;
  for (auto &v : d.vals) if (refosc::has_payload(v.t)) hasval = true;
  if (hasval && d.st == refosc::OK) {
    ctx().nontrivial_hits++;
    if (ctx().nontrivial.size() < ctx().hash_cap) {
      if (ctx().nontrivial.insert(vf::fnv(bytes)).second && ctx().samples.size() < 8 && ctx().nontrivial.size() % 53 == 1)
        ctx().samples.push_back("accepted: " + vf::esc(bytes));
    } else ctx().hash_overflow = true;
    ctx().count("accepted.with_value_args");
  }
}

// ---- structure-aware decode: build a message from a shape, then damage it in targeted ways
static std::string structured(FuzzedDataProvider &f);
static std::string structured_bundle(FuzzedDataProvider &f) {
  std::vector<std::string> el;
  int k = f.ConsumeIntegralInRange<int>(0, 3);
  for (int i = 0; i < k; i++) el.push_back(f.ConsumeBool() ? structured(f) : refosc::encode("/e", "i", {refosc::Val()}));
  std::string b = refosc::encode_bundle(f.ConsumeIntegral<uint64_t>(), el);
  int nedits = f.ConsumeIntegralInRange<int>(0, 3);
  for (int e = 0; e < nedits; e++) {
    static const uint32_t L[] = {0xfffffffcu, 0xffffffffu, 0x80000000u, 0x7fffffffu, 0xfffffff8u, 0u, 4u, 0xfffffff4u};
    // overwrite a size word (they sit at offset 16 and after each element) or append a hostile one
    std::vector<size_t> offs;
    size_t pos = 16;
    for (auto &x : el) { offs.push_back(pos); pos += 4 + x.size(); }
    uint32_t nv = f.ConsumeBool() ? L[f.ConsumeIntegralInRange<int>(0, 7)] : f.ConsumeIntegral<uint32_t>();
    std::string w{(char)(nv >> 24), (char)(nv >> 16), (char)(nv >> 8), (char)nv};
    if (!offs.empty() && f.ConsumeBool()) { size_t o = offs[f.ConsumeIntegralInRange<size_t>(0, offs.size() - 1)]; if (o + 4 <= b.size()) b.replace(o, 4, w); }
    else b += w;
    if (f.ConsumeBool() && !b.empty()) b.resize(f.ConsumeIntegralInRange<size_t>(0, b.size()));
  }
  if (b.size() > 512) b.resize(512);
  return b;
}
static std::string structured(FuzzedDataProvider &f) {
  static const char TAGS[] = "ifsbhtdScrmTFNI[]";
  std::string addr = "/";
  int al = f.ConsumeIntegralInRange<int>(0, 9);
  for (int i = 0; i < al; i++) addr += (char)f.ConsumeIntegralInRange<int>(33, 126);
  int nt = f.ConsumeIntegralInRange<int>(0, 6);
  std::string tags;
  std::vector<refosc::Val> vals;
  for (int i = 0; i < nt; i++) {
    char t = TAGS[f.ConsumeIntegralInRange<int>(0, 16)];
    tags += t;
    if (t == '[' || t == ']') continue;
    refosc::Val v; v.t = t;
    switch (t) {
      case 'i': case 'f': case 'c': case 'r': case 'm': v.u = f.ConsumeIntegral<uint32_t>(); break;
      case 'h': case 't': case 'd': v.u = f.ConsumeIntegral<uint64_t>(); break;
      case 's': case 'S': { int l = f.ConsumeIntegralInRange<int>(0, 9); for (int k = 0; k < l; k++) v.s += (char)f.ConsumeIntegralInRange<int>(1, 255); break; }
      case 'b': { int l = f.ConsumeIntegralInRange<int>(0, 9); for (int k = 0; k < l; k++) v.s += (char)f.ConsumeIntegral<uint8_t>(); break; }
      default: break;
    }
    vals.push_back(v);
  }
  std::string msg = refosc::encode(addr, tags, vals);
  // locate blob length fields / terminators by re-decoding
  refosc::Decoded d = refosc::decode((const unsigned char *)msg.data(), msg.size());
  int nedits = f.ConsumeIntegralInRange<int>(0, 4);
  for (int e = 0; e < nedits && !msg.empty(); e++) {
    switch (f.ConsumeIntegralInRange<int>(0, 7)) {
      case 0: {  // blob length := hostile value
        std::vector<size_t> offs;
        for (auto &v : d.vals) if (v.t == 'b' && v.off >= 4) offs.push_back(v.off - 4);
        if (offs.empty()) break;
        size_t o = offs[f.ConsumeIntegralInRange<size_t>(0, offs.size() - 1)];
        static const uint32_t L[] = {0x7fffffffu, 0x80000000u, 0xffffffffu, 0xfffffffcu, 0xfffffff8u, 0xfffffff0u};
        uint32_t nv;
        int c = f.ConsumeIntegralInRange<int>(0, 9);
        if (c < 6) nv = L[c];
        else if (c == 6) nv = (uint32_t)msg.size();
        else if (c == 7) nv = (uint32_t)(msg.size() - o);
        else if (c == 8) nv = (uint32_t)(0u - (uint32_t)f.ConsumeIntegralInRange<int>(1, 64));
        else nv = f.ConsumeIntegral<uint32_t>();
        if (o + 4 <= msg.size()) { msg[o] = (char)(nv >> 24); msg[o + 1] = (char)(nv >> 16); msg[o + 2] = (char)(nv >> 8); msg[o + 3] = (char)nv; }
        break;
      }
      case 1: {  // overwrite a NUL (terminator or padding) with a non-zero byte
        std::vector<size_t> z;
        for (size_t i = 0; i < msg.size(); i++) if (!msg[i]) z.push_back(i);
        if (z.empty()) break;
        msg[z[f.ConsumeIntegralInRange<size_t>(0, z.size() - 1)]] = (char)f.ConsumeIntegralInRange<int>(1, 255);
        break;
      }
      case 2: msg.resize(f.ConsumeIntegralInRange<size_t>(0, msg.size())); break;               // truncate
      case 3: { size_t i = f.ConsumeIntegralInRange<size_t>(0, msg.size() - 1); msg[i] = (char)f.ConsumeIntegral<uint8_t>(); break; }
      case 4: {  // change one tag
        size_t p = msg.find(',');
        if (p == std::string::npos || p + 1 >= msg.size()) break;
        size_t tl = strnlen(msg.data() + p + 1, msg.size() - p - 1);
        if (!tl) break;
        msg[p + 1 + f.ConsumeIntegralInRange<size_t>(0, tl - 1)] = TAGS[f.ConsumeIntegralInRange<int>(0, 16)];
        break;
      }
      case 5: { size_t i = f.ConsumeIntegralInRange<size_t>(0, msg.size()); msg.insert(i, 1, (char)f.ConsumeIntegral<uint8_t>()); break; }
      case 6: { size_t i = f.ConsumeIntegralInRange<size_t>(0, msg.size() - 1); msg[i] = ','; break; }
      case 7: msg.append((size_t)f.ConsumeIntegralInRange<int>(1, 8), (char)f.ConsumeIntegral<uint8_t>()); break;
    }
  }
  if (msg.size() > 512) msg.resize(512);
  return msg;
}

static bool g_inited = false;
static void init_once() {
  if (g_inited) return;
  g_inited = true;
  vf::G().mode = "fuzz";
  if (const char *o = getenv("VERIF_OUT")) vf::G().outdir = o;
  if (const char *w = getenv("VERIF_WORKER")) vf::G().worker = atoi(w);
  vf::G().ctx.hash_cap = 300000;
  atexit([] { if (!vf::G().stats_written) vf::write_stats("ok"); });
}

extern "C" int LLVMFuzzerTestOneInput(const uint8_t *data, size_t size) {
  init_once();
  if (size == 0) { check_bytes(""); return 0; }
  uint8_t mode = data[0];
  if (mode & 1) {  // raw (0xff marks replay files written by violation())
    ctx().count("mode.raw");
    check_bytes(std::string((const char *)data + 1, std::min<size_t>(size - 1, 512)));
  } else {
    FuzzedDataProvider f(data + 1, size - 1);
    if ((mode & 6) == 6) { ctx().count("mode.structured_bundle"); check_bytes(structured_bundle(f)); }
    else { ctx().count("mode.structured"); check_bytes(structured(f)); }
  }
  return 0;
}

// ---- exhaustive tiny buffers (run as a normal program, no libFuzzer loop):
//   buffers '/' + 7 bytes over a 10-symbol alphabet, and all 4-byte buffers (budget selects)
extern "C" int LLVMFuzzerInitialize(int *argc, char ***argv) {
  if (*argc >= 3 && !strcmp((*argv)[1], "--mkcorpus")) {
    using refosc::Val;
    auto V = [](char t, uint64_t u, const char *s = "") { Val v; v.t = t; v.u = u; v.s = s; return v; };
    std::vector<std::string> c = {
        refosc::encode("/a", "", {}), refosc::encode("/abc", "i", {V('i', 7)}), refosc::encode("/path/x", "sf", {V('s', 0, "hello"), V('f', 0x3f800000)}),
        refosc::encode("/b", "b", {V('b', 0, "blobdata")}), refosc::encode("/m", "hdtm", {V('h', 1), V('d', 2), V('t', 3), V('m', 4)}),
        refosc::encode("/t", "TFNI[ii]", {V('T', 0), V('F', 0), V('N', 0), V('I', 0), V('i', 1), V('i', 2)}),
        refosc::encode("/s", "sSb", {V('s', 0, ""), V('S', 0, "abc"), V('b', 0, "")}), refosc::encode("/c", "cr", {V('c', 'x'), V('r', 0x11223344)})};
    c.push_back(refosc::encode_bundle(1, {refosc::encode("/a", "i", {V('i', 1)}), refosc::encode_bundle(2, {refosc::encode("/b", "", {})})}));
    int k = 0;
    for (auto &m : c) vf::write_file(std::string((*argv)[2]) + "/seed" + std::to_string(k++), std::string(1, (char)1) + m);
    exit(0);
  }
  if (*argc >= 2 && !strcmp((*argv)[1], "--enum")) {
    init_once();
    vf::G().mode = "enum";
    int k = atoi((*argv)[2]), nw = atoi((*argv)[3]);
    long budget = atol((*argv)[4]);
    vf::G().worker = k;
    vf::G().ctx.hash_cap = 200000;
    static const unsigned char A[10] = {0, ',', '/', 'i', 's', 'b', 'a', 1, 0xff, 4};
    uint64_t total = 1;
    int len = (int)budget;  // number of free bytes after '/'
    for (int i = 0; i < len; i++) total *= 10;
    for (uint64_t x = (uint64_t)k; x < total; x += (uint64_t)nw) {
      std::string b = "/";
      uint64_t y = x;
      for (int i = 0; i < len; i++) { b += (char)A[y % 10]; y /= 10; }
      check_bytes(b);
    }
    if (k == 0) {  // all buffers of length <=2 and a slice of 4-byte buffers starting with '/' and ','
      for (int a = 0; a < 256; a++) { check_bytes(std::string(1, (char)a)); for (int b2 = 0; b2 < 256; b2++) check_bytes(std::string{(char)a, (char)b2}); }
      for (int a = 0; a < 256; a++) for (int b2 = 0; b2 < 256; b2++) for (int c = 0; c < 256; c += 1) check_bytes(std::string{'/', (char)a, (char)b2, (char)c});
    }
    ctx().count("max.enum_free_bytes", (uint64_t)len);
    vf::write_stats("ok");
    exit(0);
  }
  return 0;
}
