// C08 - bundles compose and decompose losslessly, including nesting.
#include "common/bundlegen.hpp"
#include <rtosc/ports.h>
#include <rtosc/port-sugar.h>
#include <rtosc/subtree-serialize.h>

// application object for the subtree_serialize sub-check
struct SApp { int a = 0, b = 0; float f = 0; bool t = false; char c = 0; int hidden = 0; static rtosc::Ports ports; };
#define rObject SApp
rtosc::Ports SApp::ports = {
    rParamI(a, "a"), rParamF(f, "f"), rToggle(t, "t"), rParam(c, "c"), rParamI(b, "b"),
    {"hidden::i", rProp(internal) rDoc("not serialised"), NULL, rParamICb(hidden)},
};
#undef rObject

using bg::Elem;

struct Case {
  Elem root;
  int kind = 0;                 // 0: compose/decompose ; 1: subtree_serialize of an application object
  std::vector<int> vals;        // kind 1: parameter values
  template <class A> void io(A &a) { a(root); if (a.more()) a(kind)(vals); }   // kind/vals: optional trailing fields (older case files end after root)
  std::string describe() const {
    if (kind == 0) return root.describe();
    std::string d = "subtree_serialize of app with values";
    for (int v : vals) d += " " + std::to_string(v);
    return d;
  }
};
const char *vf_property() { return "C08"; }
void vf_init() {}

Case vf_generate() {
  Case c;
  if (vf::chance(15)) {
    c.kind = 1;
    for (int i = 0; i < 6; i++) c.vals.push_back(vf::chance(50) ? vf::pick<int>(-100, 100) : (int)vf::bits32());
    return c;
  }
  int depth = vf::pick<int>(0, 4);
  c.root = bg::gen_elem(depth, 8, vf::chance(90));
  return c;
}

// build element bytes with the library (messages: amessage, bundles: rtosc_bundle of built children)
static std::string build(const Elem &e, std::string &err) {
  std::string ref = e.ref();
  if (!e.is_bundle) {
    mg::ArgPack p = mg::pack(e.m);
    std::string out(ref.size() + 8, (char)0xAA);
    size_t r = rtosc_amessage(&out[0], out.size(), e.m.address.c_str(), e.m.tags.c_str(), p.args.empty() ? nullptr : p.args.data());
    if (r != ref.size() || memcmp(out.data(), ref.data(), r)) { err = "message element differs from reference"; return ""; }
    out.resize(r);
    return out;
  }
  std::vector<bg::Block> blocks;
  std::vector<const char *> ptrs;
  for (auto &k : e.kids) {
    std::string kb = build(k, err);
    if (!err.empty()) return "";
    blocks.emplace_back(kb);
  }
  for (auto &b : blocks) ptrs.push_back(b.p.get());
  const size_t cap = ref.size() + 12;
  std::unique_ptr<char[]> buf(new char[cap]);
  memset(buf.get(), 0xAA, cap);
  size_t r = bg::call_bundle(buf.get(), cap, e.tt, ptrs);
  if (r != ref.size()) { err = "rtosc_bundle returned " + std::to_string(r) + ", reference size " + std::to_string(ref.size()); return ""; }
  if (memcmp(buf.get(), ref.data(), r)) {
    size_t i = 0; while (buf[i] == ref[i]) i++;
    err = "rtosc_bundle bytes differ from reference at offset " + std::to_string(i);
    return "";
  }
  return std::string(buf.get(), r);
}

static std::string decompose(const Elem &e, const char *p, size_t n, const std::string &path) {
  // p: exact-size heap block of n bytes
  if (!e.is_bundle) {
    if (rtosc_bundle_p(p)) return path + ": plain message mistaken for a bundle";
    size_t l = rtosc_message_length(p, n);
    if (l != n) return path + ": rtosc_message_length of message element = " + std::to_string(l) + " != " + std::to_string(n);
    return "";
  }
  if (!rtosc_bundle_p(p)) return path + ": bundle not recognised by rtosc_bundle_p";
  size_t l = rtosc_message_length(p, n);
  if (l != n) return path + ": rtosc_message_length(bundle) = " + std::to_string(l) + " != size " + std::to_string(n);
  if (rtosc_bundle_timetag(p) != e.tt) return path + ": time tag not preserved";
  size_t k = rtosc_bundle_elements(p, n);
  if (k != e.kids.size()) return path + ": rtosc_bundle_elements = " + std::to_string(k) + " != " + std::to_string(e.kids.size());
  for (size_t i = 0; i < e.kids.size(); i++) {
    std::string kr = e.kids[i].ref();
    const char *f = rtosc_bundle_fetch(p, (unsigned)i);
    size_t s = rtosc_bundle_size(p, (unsigned)i);
    std::string w = path + "/" + std::to_string(i);
    if (!f || f < p || f + kr.size() > p + n) return w + ": fetched element pointer outside the bundle";
    if (s != kr.size()) return w + ": rtosc_bundle_size = " + std::to_string(s) + " != " + std::to_string(kr.size());
    if (memcmp(f, kr.data(), kr.size())) return w + ": fetched element bytes differ";
    std::unique_ptr<char[]> ex(new char[kr.size()]);
    memcpy(ex.get(), f, kr.size());
    std::string r = decompose(e.kids[i], ex.get(), kr.size(), w);
    if (!r.empty()) return r;
  }
  return "";
}

static size_t count_elems(const Elem &e) { size_t c = 1; for (auto &k : e.kids) c += count_elems(k); return c; }

static std::string run_serialize(const Case &c, vf::Ctx &ctx) {
  SApp app;
  app.a = c.vals[0]; app.b = c.vals[1]; app.f = (float)c.vals[2] / 8.0f; app.t = c.vals[3] & 1; app.c = (char)(c.vals[4] & 127); app.hidden = c.vals[5];
  char buf[1024];
  memset(buf, 0xAA, sizeof buf);
  size_t len = subtree_serialize(buf, sizeof buf, &app, &SApp::ports);
  // expected: one element per non-internal port, in table order, each the port's reply at its address
  auto V = [](char t, uint32_t u) { refosc::Val v; v.t = t; v.u = u; return v; };
  uint32_t fb; float ff = app.f; memcpy(&fb, &ff, 4);
  std::vector<std::string> want = {
      refosc::encode("/a", "i", {V('i', (uint32_t)app.a)}), refosc::encode("/f", "f", {V('f', fb)}), refosc::encode("/t", app.t ? "T" : "F", {V(app.t ? 'T' : 'F', 0)}),
      refosc::encode("/c", "c", {V('c', (uint32_t)(int)app.c)}), refosc::encode("/b", "i", {V('i', (uint32_t)app.b)})};
  std::string ref = refosc::encode_bundle(0xdeadbeef0a0b0c0dULL, want);
  if (len != ref.size()) return "subtree_serialize returns " + std::to_string(len) + ", the bundle of the 5 replying ports has " + std::to_string(ref.size()) + " bytes";
  if (!rtosc_bundle_p(buf)) return "subtree_serialize output is not recognised as a bundle";
  if (rtosc_message_length(buf, len) != len) return "length function disagrees with subtree_serialize's return value";
  size_t k = rtosc_bundle_elements(buf, len);
  if (k != want.size()) return "serialised bundle reports " + std::to_string(k) + " elements, expected " + std::to_string(want.size());
  for (size_t i = 0; i < want.size(); i++) {
    if (rtosc_bundle_size(buf, (unsigned)i) != want[i].size() || memcmp(rtosc_bundle_fetch(buf, (unsigned)i), want[i].data(), want[i].size())) return "serialised element " + std::to_string(i) + " differs from the port's reply message";
  }
  if (memcmp(buf, ref.data(), len)) return "serialised bundle bytes differ from the reference encoding";
  ctx.count("kind.subtree_serialize");
  ctx.nontriv(vf::fnv(ref));
  return "";
}

std::string vf_run(const Case &c, vf::Ctx &ctx) {
  if (c.kind == 1) return run_serialize(c, ctx);
  std::string err;
  std::string bytes = build(c.root, err);
  if (!err.empty()) return err;
  std::unique_ptr<char[]> ex(new char[bytes.size()]);
  memcpy(ex.get(), bytes.data(), bytes.size());
  std::string r = decompose(c.root, ex.get(), bytes.size(), "root");
  if (!r.empty()) return r;
  int d = c.root.depth();
  ctx.count("depth." + std::to_string(d));
  ctx.count("top_elements." + std::to_string(c.root.kids.size()));
  if (c.root.is_bundle && (c.root.kids.size() >= 2 || d >= 2)) ctx.nontriv(vf::fnv(bytes));
  ctx.count("elements_total", count_elems(c.root));
  return "";
}
std::string vf_enumerate(vf::Ctx &, int, int, long) { return ""; }
VF_MAIN(Case)
