// C08 - bundles compose and decompose losslessly, including nesting.
#include "common/bundlegen.hpp"

using bg::Elem;

struct Case {
  Elem root;
  template <class A> void io(A &a) { a(root); }
  std::string describe() const { return root.describe(); }
};
const char *vf_property() { return "C08"; }
void vf_init() {}

Case vf_generate() {
  Case c;
  int depth = vf::pick<int>(0, 4);
  c.root = bg::gen_elem(depth, 8, vf::chance(90));
  return c;
}

// build element bytes with the library (messages: amessage, bundles: rtosc_bundle of built children)
static std::string build(const Elem &e, std::string &err) {
  std::string ref = e.ref();
  if (!e.is_bundle) {
    mg::ArgPack p = mg::pack(e.m);
    std::string out(ref.size() + 8, (char)0xAA);
    size_t r = rtosc_amessage(&out[0], out.size(), e.m.address.c_str(), e.m.tags.c_str(), p.args.empty() ? nullptr : p.args.data());
    if (r != ref.size() || memcmp(out.data(), ref.data(), r)) { err = "message element differs from reference"; return ""; }
    out.resize(r);
    return out;
  }
  std::vector<bg::Block> blocks;
  std::vector<const char *> ptrs;
  for (auto &k : e.kids) {
    std::string kb = build(k, err);
    if (!err.empty()) return "";
    blocks.emplace_back(kb);
  }
  for (auto &b : blocks) ptrs.push_back(b.p.get());
  const size_t cap = ref.size() + 12;
  std::unique_ptr<char[]> buf(new char[cap]);
  memset(buf.get(), 0xAA, cap);
  size_t r = bg::call_bundle(buf.get(), cap, e.tt, ptrs);
  if (r != ref.size()) { err = "rtosc_bundle returned " + std::to_string(r) + ", reference size " + std::to_string(ref.size()); return ""; }
  if (memcmp(buf.get(), ref.data(), r)) {
    size_t i = 0; while (buf[i] == ref[i]) i++;
    err = "rtosc_bundle bytes differ from reference at offset " + std::to_string(i);
    return "";
  }
  return std::string(buf.get(), r);
}

static std::string decompose(const Elem &e, const char *p, size_t n, const std::string &path) {
  // p: exact-size heap block of n bytes
  if (!e.is_bundle) {
    if (rtosc_bundle_p(p)) return path + ": plain message mistaken for a bundle";
    size_t l = rtosc_message_length(p, n);
    if (l != n) return path + ": rtosc_message_length of message element = " + std::to_string(l) + " != " + std::to_string(n);
    return "";
  }
  if (!rtosc_bundle_p(p)) return path + ": bundle not recognised by rtosc_bundle_p";
  size_t l = rtosc_message_length(p, n);
  if (l != n) return path + ": rtosc_message_length(bundle) = " + std::to_string(l) + " != size " + std::to_string(n);
  if (rtosc_bundle_timetag(p) != e.tt) return path + ": time tag not preserved";
  size_t k = rtosc_bundle_elements(p, n);
  if (k != e.kids.size()) return path + ": rtosc_bundle_elements = " + std::to_string(k) + " != " + std::to_string(e.kids.size());
  for (size_t i = 0; i < e.kids.size(); i++) {
    std::string kr = e.kids[i].ref();
    const char *f = rtosc_bundle_fetch(p, (unsigned)i);
    size_t s = rtosc_bundle_size(p, (unsigned)i);
    std::string w = path + "/" + std::to_string(i);
    if (!f || f < p || f + kr.size() > p + n) return w + ": fetched element pointer outside the bundle";
    if (s != kr.size()) return w + ": rtosc_bundle_size = " + std::to_string(s) + " != " + std::to_string(kr.size());
    if (memcmp(f, kr.data(), kr.size())) return w + ": fetched element bytes differ";
    std::unique_ptr<char[]> ex(new char[kr.size()]);
    memcpy(ex.get(), f, kr.size());
    std::string r = decompose(e.kids[i], ex.get(), kr.size(), w);
    if (!r.empty()) return r;
  }
  return "";
}

static size_t count_elems(const Elem &e) { size_t c = 1; for (auto &k : e.kids) c += count_elems(k); return c; }

std::string vf_run(const Case &c, vf::Ctx &ctx) {
  std::string err;
  std::string bytes = build(c.root, err);
  if (!err.empty()) return err;
  std::unique_ptr<char[]> ex(new char[bytes.size()]);
  memcpy(ex.get(), bytes.data(), bytes.size());
  std::string r = decompose(c.root, ex.get(), bytes.size(), "root");
  if (!r.empty()) return r;
  int d = c.root.depth();
  ctx.count("depth." + std::to_string(d));
  ctx.count("top_elements." + std::to_string(c.root.kids.size()));
  if (c.root.is_bundle && (c.root.kids.size() >= 2 || d >= 2)) ctx.nontriv(vf::fnv(bytes));
  ctx.count("elements_total", count_elems(c.root));
  return "";
}
std::string vf_enumerate(vf::Ctx &, int, int, long) { return ""; }
VF_MAIN(Case)
