// C08 - bundles compose and decompose losslessly, including nesting.
#include "common/bundlegen.hpp"
#include <rtosc/ports.h>
#include <rtosc/port-sugar.h>
#include <rtosc/subtree-serialize.h>

// application object for the subtree_serialize sub-check
struct SApp { int a = 0, b = 0; float f = 0; bool t = false; char c = 0; int hidden = 0; int actions = 0; static rtosc::Ports ports; };
#define rObject SApp
rtosc::Ports SApp::ports = {
    rParamI(a, "a"), rParamF(f, "f"),
    // a port that answers nothing (an action): it contributes no element
    {"act:", rDoc("action"), NULL, [](const char *, rtosc::RtData &d) { ((SApp *)d.obj)->actions++; }},
    rToggle(t, "t"), rParam(c, "c"), rParamI(b, "b"),
    {"hidden::i", rProp(internal) rDoc("not serialised"), NULL, rParamICb(hidden)},
};
#undef rObject

using bg::Elem;

struct Case {
  Elem root;
  int kind = 0;                 // 0: compose/decompose ; 1: subtree_serialize of an application object
  std::vector<int> vals;        // kind 1: parameter values
  int slack = 12;               // bundles are built into dirty storage of exactly size+slack bytes
  bool reuse = false;           // a second bundle is then put into the storage of the first and both are read by index in a generated order
  Elem second;
  std::vector<int> order1, order2;
  template <class A> void io(A &a) { a(root); if (a.more()) a(kind)(vals); if (a.more()) a(slack)(reuse)(second)(order1)(order2); }   // optional trailing fields (older case files end earlier)
  std::string describe() const {
    if (kind == 0) {
      std::string d = root.describe() + " slack=" + std::to_string(slack);
      if (reuse) {
        d += " | then in the same storage: " + second.describe() + " | element lookups";
        for (int i : order1) d += " " + std::to_string(i);
        d += " /";
        for (int i : order2) d += " " + std::to_string(i);
      }
      return d;
    }
    std::string d = "subtree_serialize of app with values";
    for (int v : vals) d += " " + std::to_string(v);
    return d;
  }
};
const char *vf_property() { return "C08"; }
void vf_init() {}

Case vf_generate() {
  Case c;
  if (vf::chance(15)) {
    c.kind = 1;
    for (int i = 0; i < 6; i++) c.vals.push_back(vf::chance(50) ? vf::pick<int>(-100, 100) : (int)vf::bits32());
    return c;
  }
  int depth = vf::pick<int>(0, 4);
  c.root = bg::gen_elem(depth, 8, vf::chance(90));
  c.slack = vf::oneof<int>({0, 1, 2, 3, 4, 4, 5, 8, 12});
  if (c.root.is_bundle && !c.root.kids.empty() && vf::chance(50)) {
    c.reuse = true;
    c.second = bg::gen_elem(vf::pick<int>(0, 2), 8, true);
    auto order = [&](size_t n) {
      std::vector<int> o;
      if (n == 0) return o;
      switch (vf::pickn(4)) {
        case 0: for (size_t i = 0; i < n; i++) o.push_back((int)i); break;
        case 1: for (size_t i = n; i-- > 0;) o.push_back((int)i); break;
        case 2: o.push_back((int)n - 1); break;
        default: { int k = vf::pick<int>(1, (int)std::min<size_t>(2 * n, 16)); for (int i = 0; i < k; i++) o.push_back(vf::pickn((int)n)); }
      }
      return o;
    };
    c.order1 = order(c.root.kids.size());
    c.order2 = order(c.second.kids.size());
  }
  return c;
}

// build element bytes with the library (messages: amessage, bundles: rtosc_bundle of built children).
// Bundles are built into dirty storage of size+slack bytes; with slack >= 4 the storage itself (not a clean copy)
// is what the enclosing bundle gets as its element, the way a caller composes bundles in place.
struct Built { std::string bytes; std::unique_ptr<char[]> raw; size_t cap = 0; };
static Built build(const Elem &e, std::string &err, int slack) {
  Built out;
  std::string ref = e.ref();
  if (!e.is_bundle) {
    mg::ArgPack p = mg::pack(e.m);
    std::string o(ref.size() + 8, (char)0xAA);
    size_t r = rtosc_amessage(&o[0], o.size(), e.m.address.c_str(), e.m.tags.c_str(), p.args.empty() ? nullptr : p.args.data());
    if (r != ref.size() || memcmp(o.data(), ref.data(), r)) { err = "message element differs from reference"; return out; }
    o.resize(r);
    out.bytes = o;
    return out;
  }
  std::vector<Built> kids;
  std::vector<bg::Block> blocks;
  std::vector<const char *> ptrs;
  for (auto &k : e.kids) {
    kids.push_back(build(k, err, slack));
    if (!err.empty()) return out;
  }
  blocks.reserve(kids.size());
  for (auto &k : kids) {
    if (k.raw && k.cap >= k.bytes.size() + 4) ptrs.push_back(k.raw.get());
    else { blocks.emplace_back(k.bytes); ptrs.push_back(blocks.back().p.get()); }
  }
  const size_t cap = ref.size() + (size_t)slack;
  std::unique_ptr<char[]> buf(new char[cap ? cap : 1]);
  memset(buf.get(), 0xAA, cap);
  size_t r = bg::call_bundle(buf.get(), cap, e.tt, ptrs);
  if (r != ref.size()) { err = "rtosc_bundle returned " + std::to_string(r) + ", reference size " + std::to_string(ref.size()) + " (capacity " + std::to_string(cap) + ")"; return out; }
  if (memcmp(buf.get(), ref.data(), r)) {
    size_t i = 0; while (buf[i] == ref[i]) i++;
    err = "rtosc_bundle bytes differ from reference at offset " + std::to_string(i);
    return out;
  }
  // in the storage it was built in (whatever that held before), the bundle has the length the length function reports
  // and the element count it was given
  size_t l = rtosc_message_length(buf.get(), cap);
  if (l != r) { err = "rtosc_message_length of the bundle in the storage it was built in (capacity size+" + std::to_string(slack) + ", dirty before) = " + std::to_string(l) + " != " + std::to_string(r); return out; }
  size_t k = rtosc_bundle_elements(buf.get(), cap);
  if (k != e.kids.size()) { err = "rtosc_bundle_elements of the bundle in the storage it was built in (capacity size+" + std::to_string(slack) + ", dirty before) = " + std::to_string(k) + " != " + std::to_string(e.kids.size()); return out; }
  out.bytes.assign(buf.get(), r);
  out.raw = std::move(buf);
  out.cap = cap;
  return out;
}

static std::string decompose(const Elem &e, const char *p, size_t n, const std::string &path) {
  // p: exact-size heap block of n bytes
  if (!e.is_bundle) {
    if (rtosc_bundle_p(p)) return path + ": plain message mistaken for a bundle";
    size_t l = rtosc_message_length(p, n);
    if (l != n) return path + ": rtosc_message_length of message element = " + std::to_string(l) + " != " + std::to_string(n);
    return "";
  }
  if (!rtosc_bundle_p(p)) return path + ": bundle not recognised by rtosc_bundle_p";
  {
    // the same bundle followed by a zero size word, measured with "length unknown" (the bound the library itself uses
    // when rtosc_bundle sizes its elements)
    bg::Block z(std::string(p, n));
    size_t lu = rtosc_message_length(z.p.get(), (size_t)-1);
    if (lu != n) return path + ": rtosc_message_length(bundle, unbounded) = " + std::to_string(lu) + " != size " + std::to_string(n);
    size_t ku = rtosc_bundle_elements(z.p.get(), (size_t)-1);
    if (ku != e.kids.size()) return path + ": rtosc_bundle_elements(bundle, unbounded) = " + std::to_string(ku) + " != " + std::to_string(e.kids.size());
  }
  size_t l = rtosc_message_length(p, n);
  if (l != n) return path + ": rtosc_message_length(bundle) = " + std::to_string(l) + " != size " + std::to_string(n);
  if (rtosc_bundle_timetag(p) != e.tt) return path + ": time tag not preserved";
  size_t k = rtosc_bundle_elements(p, n);
  if (k != e.kids.size()) return path + ": rtosc_bundle_elements = " + std::to_string(k) + " != " + std::to_string(e.kids.size());
  for (size_t i = 0; i < e.kids.size(); i++) {
    std::string kr = e.kids[i].ref();
    const char *f = rtosc_bundle_fetch(p, (unsigned)i);
    size_t s = rtosc_bundle_size(p, (unsigned)i);
    std::string w = path + "/" + std::to_string(i);
    if (!f || f < p || f + kr.size() > p + n) return w + ": fetched element pointer outside the bundle";
    if (s != kr.size()) return w + ": rtosc_bundle_size = " + std::to_string(s) + " != " + std::to_string(kr.size());
    if (memcmp(f, kr.data(), kr.size())) return w + ": fetched element bytes differ";
    std::unique_ptr<char[]> ex(new char[kr.size()]);
    memcpy(ex.get(), f, kr.size());
    std::string r = decompose(e.kids[i], ex.get(), kr.size(), w);
    if (!r.empty()) return r;
  }
  return "";
}

static size_t count_elems(const Elem &e) { size_t c = 1; for (auto &k : e.kids) c += count_elems(k); return c; }

static std::string run_serialize(const Case &c, vf::Ctx &ctx) {
  SApp app;
  app.a = c.vals[0]; app.b = c.vals[1]; app.f = (float)c.vals[2] / 8.0f; app.t = c.vals[3] & 1; app.c = (char)(c.vals[4] & 127); app.hidden = c.vals[5];
  char buf[1024];
  memset(buf, 0xAA, sizeof buf);
  size_t len = subtree_serialize(buf, sizeof buf, &app, &SApp::ports);
  // expected: one element per non-internal port, in table order, each the port's reply at its address
  auto V = [](char t, uint32_t u) { refosc::Val v; v.t = t; v.u = u; return v; };
  uint32_t fb; float ff = app.f; memcpy(&fb, &ff, 4);
  std::vector<std::string> want = {
      refosc::encode("/a", "i", {V('i', (uint32_t)app.a)}), refosc::encode("/f", "f", {V('f', fb)}), refosc::encode("/t", app.t ? "T" : "F", {V(app.t ? 'T' : 'F', 0)}),
      refosc::encode("/c", "c", {V('c', (uint32_t)(int)app.c)}), refosc::encode("/b", "i", {V('i', (uint32_t)app.b)})};
  std::string ref = refosc::encode_bundle(0xdeadbeef0a0b0c0dULL, want);
  if (len != ref.size()) return "subtree_serialize returns " + std::to_string(len) + ", the bundle of the 5 replying ports has " + std::to_string(ref.size()) + " bytes";
  if (!rtosc_bundle_p(buf)) return "subtree_serialize output is not recognised as a bundle";
  if (rtosc_message_length(buf, len) != len) return "length function disagrees with subtree_serialize's return value";
  size_t k = rtosc_bundle_elements(buf, len);
  if (k != want.size()) return "serialised bundle reports " + std::to_string(k) + " elements, expected " + std::to_string(want.size());
  for (size_t i = 0; i < want.size(); i++) {
    if (rtosc_bundle_size(buf, (unsigned)i) != want[i].size() || memcmp(rtosc_bundle_fetch(buf, (unsigned)i), want[i].data(), want[i].size())) return "serialised element " + std::to_string(i) + " differs from the port's reply message";
  }
  if (memcmp(buf, ref.data(), len)) return "serialised bundle bytes differ from the reference encoding";
  // and back: replaying the serialised bundle into another object gives it the same parameter values
  {
    SApp other;
    other.a = ~app.a; other.b = app.b + 1; other.f = app.f + 1.0f; other.t = !app.t; other.c = (char)((app.c + 1) & 127); other.hidden = 77;
    std::unique_ptr<char[]> ex(new char[len + 4]);
    memcpy(ex.get(), buf, len);
    memset(ex.get() + len, 0, 4);
    rtosc::RtData d;
    char loc[128] = {0};
    d.loc = loc; d.loc_size = sizeof loc;
    subtree_deserialize(ex.get(), len, &other, &SApp::ports, d);
    if (other.a != app.a || other.b != app.b || other.f != app.f || other.t != app.t || other.c != app.c) return "subtree_deserialize of the serialised bundle does not reproduce the parameter values";
    if (other.hidden != 77) return "subtree_deserialize changed a parameter that is not serialised";
  }
  ctx.count("kind.subtree_serialize");
  ctx.nontriv(vf::fnv(ref));
  return "";
}

std::string vf_run(const Case &c, vf::Ctx &ctx) {
  if (c.kind == 1) return run_serialize(c, ctx);
  std::string err;
  Built built = build(c.root, err, c.slack);
  if (!err.empty()) return err;
  const std::string &bytes = built.bytes;
  std::unique_ptr<char[]> ex(new char[bytes.size()]);
  memcpy(ex.get(), bytes.data(), bytes.size());
  std::string r = decompose(c.root, ex.get(), bytes.size(), "root");
  if (!r.empty()) return r;
  if (c.reuse) {
    // two bundles one after the other in the same storage, elements looked up by index in a generated order
    std::string b2 = c.second.ref();
    const size_t cap = std::max(bytes.size(), b2.size());
    std::unique_ptr<char[]> st(new char[cap]);
    auto look = [&](const Elem &e, const std::string &by, const std::vector<int> &order, const char *what) -> std::string {
      memset(st.get(), 0, cap);
      memcpy(st.get(), by.data(), by.size());
      for (int i : order) {
        if (i < 0 || (size_t)i >= e.kids.size()) continue;
        std::string kr = e.kids[(size_t)i].ref();
        const char *f = rtosc_bundle_fetch(st.get(), (unsigned)i);
        size_t sz = rtosc_bundle_size(st.get(), (unsigned)i);
        if (sz != kr.size()) return std::string(what) + ": rtosc_bundle_size(" + std::to_string(i) + ") = " + std::to_string(sz) + " != " + std::to_string(kr.size());
        if (!f || f < st.get() || f + kr.size() > st.get() + by.size() || memcmp(f, kr.data(), kr.size())) return std::string(what) + ": element " + std::to_string(i) + " fetched by index is not byte-identical";
      }
      return "";
    };
    if (!(r = look(c.root, bytes, c.order1, "first bundle in the storage")).empty()) return r;
    if (!(r = look(c.second, b2, c.order2, "second bundle in the same storage")).empty()) return r;
    ctx.count("reuse.second_bundle_in_same_storage");
  }
  ctx.count("slack." + std::to_string(c.slack));
  int d = c.root.depth();
  ctx.count("depth." + std::to_string(d));
  ctx.count("top_elements." + std::to_string(c.root.kids.size()));
  if (c.root.is_bundle && (c.root.kids.size() >= 2 || d >= 2)) ctx.nontriv(vf::fnv(bytes));
  ctx.count("elements_total", count_elems(c.root));
  return "";
}
std::string vf_enumerate(vf::Ctx &, int, int, long) { return ""; }
VF_MAIN(Case)
