// C03 - realtime safety: the message path never allocates and never locks.
// Built WITHOUT sanitizers: this executable replaces the allocator (counting wrappers around glibc's
// __libc_* entry points) and wraps the lock functions at link time (-Wl,--wrap=...). The counters are armed
// only inside the realtime section; everything the section needs is materialised before.
#include <cstddef>
#include <cstdlib>
#include <pthread.h>
#include <dlfcn.h>
#include <semaphore.h>
extern "C" {
void *__libc_malloc(size_t);
void __libc_free(void *);
void *__libc_calloc(size_t, size_t);
void *__libc_realloc(void *, size_t);
void *__libc_memalign(size_t, size_t);
}
static volatile int g_armed = 0;
static volatile unsigned long g_allocs = 0, g_frees = 0, g_locks = 0;
extern "C" {
void *malloc(size_t n) { if (g_armed) g_allocs++; return __libc_malloc(n); }
void free(void *p) { if (g_armed && p) g_frees++; __libc_free(p); }
void *calloc(size_t a, size_t b) { if (g_armed) g_allocs++; return __libc_calloc(a, b); }
void *realloc(void *p, size_t n) { if (g_armed) g_allocs++; return __libc_realloc(p, n); }
void *memalign(size_t a, size_t n) { if (g_armed) g_allocs++; return __libc_memalign(a, n); }
void *aligned_alloc(size_t a, size_t n) { if (g_armed) g_allocs++; return __libc_memalign(a, n); }
int posix_memalign(void **out, size_t a, size_t n) { if (g_armed) g_allocs++; *out = __libc_memalign(a, n); return *out ? 0 : 12; }
void *valloc(size_t n) { if (g_armed) g_allocs++; return __libc_memalign(4096, n); }
int __real_pthread_mutex_lock(pthread_mutex_t *);
int __wrap_pthread_mutex_lock(pthread_mutex_t *m) { if (g_armed) g_locks++; return __real_pthread_mutex_lock(m); }
int __real_pthread_mutex_trylock(pthread_mutex_t *);
int __wrap_pthread_mutex_trylock(pthread_mutex_t *m) { if (g_armed) g_locks++; return __real_pthread_mutex_trylock(m); }
int __real_pthread_mutex_timedlock(pthread_mutex_t *, const struct timespec *);
int __wrap_pthread_mutex_timedlock(pthread_mutex_t *m, const struct timespec *t) { if (g_armed) g_locks++; return __real_pthread_mutex_timedlock(m, t); }
int __real_pthread_rwlock_rdlock(pthread_rwlock_t *);
int __wrap_pthread_rwlock_rdlock(pthread_rwlock_t *m) { if (g_armed) g_locks++; return __real_pthread_rwlock_rdlock(m); }
int __real_pthread_rwlock_wrlock(pthread_rwlock_t *);
int __wrap_pthread_rwlock_wrlock(pthread_rwlock_t *m) { if (g_armed) g_locks++; return __real_pthread_rwlock_wrlock(m); }
int __real_pthread_spin_lock(pthread_spinlock_t *);
int __wrap_pthread_spin_lock(pthread_spinlock_t *m) { if (g_armed) g_locks++; return __real_pthread_spin_lock(m); }
int __real_pthread_cond_wait(pthread_cond_t *, pthread_mutex_t *);
int __wrap_pthread_cond_wait(pthread_cond_t *c, pthread_mutex_t *m) { if (g_armed) g_locks++; return __real_pthread_cond_wait(c, m); }
int __real_sem_wait(sem_t *);
int __wrap_sem_wait(sem_t *s) { if (g_armed) g_locks++; return __real_sem_wait(s); }
int __real___cxa_guard_acquire(void *);
int __wrap___cxa_guard_acquire(void *g) { if (g_armed) g_locks++; return __real___cxa_guard_acquire(g); }
// --wrap only redirects the references of the objects linked here; locks taken inside shared libraries (libstdc++'s locale
// mutex, for one) go through their own PLT, which resolves to a definition in the executable: interpose the mutex entry
// point as well (the next definition in search order is glibc's)
static int (*g_next_mutex_lock)(pthread_mutex_t *) = nullptr;
int pthread_mutex_lock(pthread_mutex_t *m) {
  if (!g_next_mutex_lock) g_next_mutex_lock = (int (*)(pthread_mutex_t *))dlsym(RTLD_NEXT, "pthread_mutex_lock");
  if (g_armed) g_locks++;
  return g_next_mutex_lock(m);
}
}

#include "common/ptree.hpp"
#include <locale>
#include "common/msggen.hpp"
#include "common/bundlegen.hpp"
#include <rtosc/thread-link.h>

// an application object with the library's own parameter ports
struct App {
  int vi = 5; float vf = 1; bool vt = false; char vc = 3; char arr[4] = {0, 1, 2, 3}; float farr[4] = {0, 0, 0, 0}; char str[16] = "s"; int opt = 0; char big[6000] = "b";
  static const rtosc::Ports ports;
};
#define rObject App
const rtosc::Ports App::ports = {
    rParamI(vi, rLinear(0, 100), "int"), rParamF(vf, rLinear(-1, 1), "float"), rToggle(vt, "toggle"), rParam(vc, "char"),
    rArrayI(arr, 4, rLinear(0, 20), "array"), rArrayF(farr, 4, "farray"), rString(str, 16, "string"),
    rOption(opt, rOptions(red, green, blue), "option"), rString(big, 6000, "long string"),
};
#undef rObject

struct Guard {
  const char *what;
  unsigned long a0, f0, l0;
  explicit Guard(const char *w) : what(w), a0(g_allocs), f0(g_frees), l0(g_locks) { g_armed = 1; }
  std::string done() {
    g_armed = 0;
    unsigned long a = g_allocs - a0, f = g_frees - f0, l = g_locks - l0;
    if (a || f || l) return std::string(what) + ": " + std::to_string(a) + " allocation(s), " + std::to_string(f) + " deallocation(s), " + std::to_string(l) + " lock operation(s) inside the realtime section";
    return "";
  }
};

struct Case {
  pt::Tree tree;
  std::vector<std::string> addrs, tags;
  mg::Msg m;                       // message for the C-level section
  std::vector<mg::Msg> appmsgs;    // messages for the parameter-port application
  int tl_maxmsg = 64, tl_msgs = 3;
  std::vector<int> tl_ops;         // 0 write, 1 read-if-any, 2 hasNext, 3 oversized write, 4 lookahead read
  template <class A> void io(A &a) { a(tree)(addrs)(tags)(m)(appmsgs)(tl_maxmsg)(tl_msgs)(tl_ops); }
  std::string describe() const {
    std::string d = tree.describe() + " | msgs:";
    for (size_t i = 0; i < addrs.size(); i++) d += " /" + addrs[i] + " ," + tags[i];
    d += " | cmsg: " + m.describe() + " | app:";
    for (auto &x : appmsgs) d += " " + x.address + "," + x.tags;
    d += " | tl(" + std::to_string(tl_maxmsg) + "," + std::to_string(tl_msgs) + ") ops=";
    for (int o : tl_ops) d += std::to_string(o);
    return d;
  }
};
const char *vf_property() { return "C03"; }
// the process runs with a global C++ locale that is not the classic one (an application facet added): library code that
// consults the global locale on the message path has to lock it
struct VerifPunct : std::numpunct<char> {};
void vf_init() { std::locale::global(std::locale(std::locale::classic(), new VerifPunct)); }

static mg::Msg app_msg() {
  static const char *names[] = {"/vi", "/vf", "/vt", "/vc", "/arr2", "/farr1", "/str", "/opt", "/nonexistent", "/arr9", "/v", "/big", "/opt"};
  mg::Msg m;
  m.address = names[vf::pickn(13)];
  static const char *tg[] = {"", "i", "f", "T", "F", "c", "s", "S", "ii"};
  m.tags = tg[vf::pickn(9)];
  mg::fill_vals(m, 12);
  for (auto &v : m.vals) {
    // option symbols: mostly known ones, also unknown / empty / numeric / long ones (the port then stores "not found"; what matters here is only that looking it up stays off the heap)
    if (v.t == 'S') v.s = vf::chance(65) ? vf::oneof<std::string>({"red", "green", "blue"}) : vf::oneof<std::string>({"purple", "", "2", "re", "redd", "a_symbol_of_more_than_sixteen_characters"});
    if (v.t == 's' && v.s.size() > 40) v.s.resize(40);
    // answers of several kB go through the default reply/broadcast forwarding as well
    if (v.t == 's' && m.address == "/big" && vf::chance(60)) v.s = std::string((size_t)vf::oneof<int>({200, 900, 1100, 2500, 5000}), 'q');
    if (v.t == 'i' || v.t == 'c') v.u = (uint32_t)vf::pick<int>(-200, 200);
  }
  return m;
}

Case vf_generate() {
  Case c;
  c.tree = pt::gen_tree(16);
  c.tree.null_ptr[0] = c.tree.null_ptr[1] = false;
  c.tree.null_manyp[0] = c.tree.null_manyp[1] = 0;
  int n = 8;
  for (int i = 0; i < n; i++) {
    std::string tg;
    std::string a = pt::gen_address(c.tree, tg);
    int k = vf::pickn(10);
    if (k >= 6) a = pt::mutate_address(a);
    if (k == 9) a = vf::strover("abc/01", 1, 6);
    if (a.empty()) a = "a";
    size_t run = 0; bool ok = true;
    for (char ch : a) { run = isdigit((unsigned char)ch) ? run + 1 : 0; if (run > 8) ok = false; }
    if (!ok) a = "a";
    // oversized messages: an index written with many leading zeros is still that index (the number parser must cope without the heap)
    if (vf::chance(8)) {
      size_t dpos = a.find_first_of("0123456789");
      if (dpos != std::string::npos) a.insert(dpos, (size_t)vf::oneof<int>({12, 200, 1100, 2500, 5000}), '0');
    }
    c.addrs.push_back(a);
    c.tags.push_back(tg);
  }
  c.m = mg::gen_msg(vf::chance(35) ? 64 : 12, 300, 40);   // also very long argument lists (a fixed-size fast path with a heap fallback would only show there)
  int na = vf::pick<int>(2, 6);
  for (int i = 0; i < na; i++) c.appmsgs.push_back(app_msg());
  c.tl_maxmsg = vf::oneof<int>({32, 64, 128});
  c.tl_msgs = vf::pick<int>(1, 3);
  int no = vf::pick<int>(3, 12);
  for (int i = 0; i < no; i++) c.tl_ops.push_back(vf::pickn(5));
  return c;
}

// preallocated recorder for leaf callbacks; the std::function carries a 64-byte capture so that any by-value copy
// of a Port in the dispatch path has to allocate
struct Big { char pad[64]; int *counter; };
static int g_leaf_calls = 0;

std::string vf_run(const Case &c, vf::Ctx &ctx) {
  std::string e;
  // ---------------- section A: C-level message API
  {
    const std::string ref = c.m.ref();
    mg::ArgPack p = mg::pack(c.m);
    std::vector<rtosc_arg_val_t> av = mg::to_argvals(c.m, p);
    std::vector<uint64_t> slots = p.slots;
    std::vector<char> buf(ref.size() + 64), buf2(ref.size() + 64), bbuf(2 * ref.size() + 128);
    std::vector<char> elem(ref.size() + 8, 0);
    memcpy(elem.data(), ref.data(), ref.size());
    const char *addr = c.m.address.c_str(), *tags = c.m.tags.c_str();
    const rtosc_arg_t *args = p.args.empty() ? nullptr : p.args.data();
    volatile uint64_t sink = 0;
    Guard g("message construction/measuring/reading, bundles");
    size_t r = rtosc_amessage(buf.data(), buf.size(), addr, tags, args);
    sink += r + rtosc_amessage(nullptr, 0, addr, tags, args);
    if (!p.has_snan_float) sink += mg::call_vmessage(buf2.data(), buf2.size(), addr, tags, slots);
    sink += rtosc_avmessage(buf2.data(), buf2.size(), addr, av.size(), av.data());
    sink += rtosc_amessage(buf2.data(), 8, addr, tags, args);   // does not fit
    sink += rtosc_message_length(buf.data(), r);
    sink += rtosc_valid_message_p(buf.data(), r);
    sink += strlen(rtosc_argument_string(buf.data()));
    unsigned n = rtosc_narguments(buf.data());
    for (unsigned i = 0; i < n; i++) { sink += (uint64_t)rtosc_type(buf.data(), i); rtosc_arg_t a = rtosc_argument(buf.data(), i); sink += (uint64_t)a.i; }
    for (rtosc_arg_itr_t it = rtosc_itr_begin(buf.data()); !rtosc_itr_end(it);) { rtosc_arg_val_t v = rtosc_itr_next(&it); sink += (uint64_t)v.type; }
    size_t br = rtosc_bundle(bbuf.data(), bbuf.size(), 7, 2, elem.data(), elem.data());
    sink += br + rtosc_bundle_p(bbuf.data()) + rtosc_bundle_elements(bbuf.data(), br) + rtosc_bundle_size(bbuf.data(), 1) + rtosc_bundle_timetag(bbuf.data());
    sink += (uint64_t)(uintptr_t)rtosc_bundle_fetch(bbuf.data(), 1) + rtosc_message_length(bbuf.data(), br);
    sink += rtosc_bundle(bbuf.data(), 20, 7, 1, elem.data());    // does not fit
    const char *pe;
    sink += rtosc_match("a#3/b:i:f", buf.data(), &pe) + rtosc_match("{x,y}z/", buf.data(), nullptr) + (rtosc_match_path(addr[0] == '/' ? addr + 1 : addr, buf.data() + (addr[0] == '/'), nullptr) != nullptr);
    if (!(e = g.done()).empty()) return e + " | " + c.m.describe();
  }
  // ---------------- section B: dispatch through generated trees, with/without location buffer
  {
    g_leaf_calls = 0;
    Big big; memset(big.pad, 1, sizeof big.pad); big.counter = &g_leaf_calls;
    pt::Instance inst(c.tree, [big](int, int) { return pt::cb_t([big](const char *, rtosc::RtData &d) { (*big.counter)++; (void)d; }); });
    for (int id = 0; id < 9; id++)
      if (inst.tabs[(size_t)id] && c.tree.tables[(size_t)id].default_handler)
        inst.tabs[(size_t)id]->default_handler = [big](const char *, rtosc::RtData &) { (*big.counter)++; };
    std::vector<pt::MsgBuf> msgs;
    for (size_t i = 0; i < c.addrs.size(); i++) msgs.emplace_back("/" + c.addrs[i], c.tags[i]);
    char loc[8192];   // the library copies enumerated components into the location buffer unchecked (its own XXX note): keep it larger than any generated address
    for (size_t i = 0; i < msgs.size(); i++) {
      int before = g_leaf_calls;
      {
        rtosc::RtData d;
        d.obj = &inst.root;
        Guard g("Ports::dispatch without location buffer");
        inst.rootports().dispatch(msgs[i].msg(), d, true);
        if (!(e = g.done()).empty()) return e + " | /" + c.addrs[i] + " ," + c.tags[i] + " on " + c.tree.describe();
      }
      {
        rtosc::RtData d;
        d.obj = &inst.root;
        memset(loc, 0, sizeof loc);
        d.loc = loc; d.loc_size = sizeof loc;
        Guard g("Ports::dispatch with location buffer");
        inst.rootports().dispatch(msgs[i].msg(), d, true);
        if (!(e = g.done()).empty()) return e + " | /" + c.addrs[i] + " ," + c.tags[i] + " on " + c.tree.describe();
      }
      ctx.count(g_leaf_calls > before ? "dispatch.reached_leaf" : "dispatch.matched_nothing");
      if (c.addrs[i].size() > 1000) ctx.count(g_leaf_calls > before ? "dispatch.oversized_index_reached_leaf" : "dispatch.oversized_index_matched_nothing");
    }
    bool hashed = false;
    for (int id = 0; id < 9; id++) {
      const pt::PTable &tb = c.tree.tables[(size_t)id];
      if (tb.ports.empty()) continue;
      bool en = false;
      for (auto &p : tb.ports) if (p.name.find('#') != std::string::npos) en = true;
      if (!en && !inst.built_hashfail[id]) hashed = true;
      ctx.count(en ? "table.enumerated" : inst.built_hashfail[id] ? "table.hash_failed" : "table.hashed");
      if (tb.default_handler) ctx.count("table.with_default_handler");
    }
    (void)hashed;
  }
  // ---------------- section C: the library's parameter-port callbacks with default reply/broadcast forwarding
  {
    App app;
    std::vector<pt::MsgBuf> msgs;
    for (auto &m : c.appmsgs) msgs.emplace_back(m.address, m.tags, &m.vals);
    char loc[256];
    for (size_t i = 0; i < msgs.size(); i++) {
      // callbacks of these macros require a location buffer (they reply to it) and admitted types only reach them
      rtosc::RtData d;
      d.obj = &app;
      memset(loc, 0, sizeof loc);
      d.loc = loc; d.loc_size = sizeof loc;
      Guard g("parameter-port dispatch (library callbacks, default reply/broadcast)");
      App::ports.dispatch(msgs[i].msg(), d, true);
      if (!(e = g.done()).empty()) return e + " | " + c.appmsgs[i].describe();
      ctx.count(d.matches ? "app.matched" : "app.unmatched");
    }
  }
  // ---------------- section D: ThreadLink
  {
    rtosc::ThreadLink tl((size_t)c.tl_maxmsg, (size_t)c.tl_msgs);
    std::string big((size_t)c.tl_maxmsg + 20, 'x');
    std::string payload((size_t)c.tl_maxmsg / 3, 'y');
    rtosc_arg_t aa[2]; aa[0].i = 5; aa[1].s = "z";
    std::vector<char> raw(64, 0);
    rtosc_message(raw.data(), 64, "/raw", "i", 1);
    std::vector<char> rawbig((size_t)c.tl_maxmsg + 64, 0);
    rtosc_message(rawbig.data(), rawbig.size(), "/rawbig", "s", big.c_str());
    volatile uint64_t sink = 0;
    Guard g("ThreadLink write/read/hasNext");
    for (int op : c.tl_ops) {
      switch (op) {
        case 0: tl.write("/a", "is", 3, payload.c_str()); tl.writeArray("/b", "is", aa); tl.raw_write(raw.data()); break;
        case 1: if (tl.hasNext()) sink += (uint64_t)tl.read()[0]; break;
        case 2: sink += tl.hasNext() + tl.hasNextLookahead(); break;
        case 3: tl.write("/big", "s", big.c_str()); tl.raw_write(rawbig.data()); break;   // too long for the link, through both entry points
        default: if (tl.hasNextLookahead()) sink += (uint64_t)tl.read_lookahead()[0]; break;
      }
    }
    while (tl.hasNext()) sink += (uint64_t)tl.read()[1];
    if (!(e = g.done()).empty()) return e;
  }
  ctx.nontriv(vf::fnv(c.describe()));
  return "";
}
std::string vf_enumerate(vf::Ctx &, int, int, long) { return ""; }
VF_MAIN(Case)
