// C18 - path utilities: '..' collapsing, lookup by address (apropos), child search (path_search).
#include "common/ptree.hpp"
#include <algorithm>

struct Case {
  int kind = 0;                       // 0 collapse, 1 apropos, 2 path_search
  std::vector<std::string> comps;     // kind 0
  bool trailing_slash = false;
  pt::Tree tree;                      // kind 1,2
  std::string location, needle;       // kind 2
  int opt = 0;
  bool with_query = false;
  int spare = 99;                     // kind 2: max_ports = size of the largest table (the documented minimum; +1 for the echoed query) + spare (99: +2, as older case files)
  template <class A> void io(A &a) { a(kind)(comps)(trailing_slash)(tree)(location)(needle)(opt)(with_query); if (a.more()) a(spare); }
  std::string path() const { std::string p; for (auto &c : comps) p += "/" + c; if (trailing_slash) p += "/"; return p; }
  std::string describe() const {
    if (kind == 0) return "collapse \"" + path() + "\"";
    if (kind == 1) return "apropos over " + tree.describe();
    return "path_search(location=\"" + location + "\", needle=\"" + needle + "\", opt=" + std::to_string(opt) + ", query=" + std::to_string(with_query) + ", spare=" + std::to_string(spare) + ") over " + tree.describe();
  }
};
const char *vf_property() { return "C18"; }
void vf_init() {}

static void make_prefix_free(pt::Tree &t) {
  for (auto &tb : t.tables) {
    std::vector<pt::PPort> keep;
    for (auto &p : tb.ports) {
      std::string a = p.name.substr(0, p.name.find(':'));
      bool clash = false;
      for (auto &k : keep) {
        std::string b = k.name.substr(0, k.name.find(':'));
        if (a.compare(0, b.size(), b) == 0 || b.compare(0, a.size(), a) == 0) clash = true;
        // an enumeration also answers to what a literal sibling spells ("a#3" vs "a1")
        refmatch::Pattern pa = refmatch::parse(a), pb = refmatch::parse(b);
        std::string sa = refmatch::sample(pa, [](int) { return 0; }, false), sb = refmatch::sample(pb, [](int) { return 0; }, false);
        if (sa.compare(0, sb.size(), sb) == 0 || sb.compare(0, sa.size(), sa) == 0) clash = true;
      }
      if (!clash) keep.push_back(p);
    }
    tb.ports = keep;
  }
}
static std::string gen_meta() {
  std::string m;
  int n = vf::sized<int>(0, 4);
  for (int i = 0; i < n; i++) {
    m += ":" + vf::strover("abk", 1, 4) + std::string(1, '\0');
    if (vf::coin()) m += "=" + vf::strover("ab 01:=", 0, 6) + std::string(1, '\0');
    // a further string behind the entry that starts no new one (a documentation value continued in a second string, the
    // bare string of rSpecial): part of the block's bytes all the same
    if (vf::chance(15)) m += std::string(1, "ab 01"[vf::pickn(5)]) + vf::strover("ab 01", 0, 5) + std::string(1, '\0');
  }
  return m;
}

Case vf_generate() {
  Case c;
  int k = vf::pickn(10);
  c.kind = k < 4 ? 0 : (k < 6 ? 1 : 2);
  if (c.kind == 0) {
    int n = vf::sized<int>(1, 8);
    for (int i = 0; i < n; i++) c.comps.push_back(vf::chance(40) ? ".." : vf::oneof<std::string>({"a", "bb", "c1", "..d", "e..", ".", "a.b", "x"}));
    c.trailing_slash = vf::chance(15);
    c.tree.tables.resize(9);
    return c;
  }
  c.tree = pt::gen_tree(c.kind == 1 ? 10 : (vf::chance(30) ? 40 : 12));   // also tables with far more than 16 ports (sorting switches algorithm there)
  for (auto &tb : c.tree.tables) for (auto &p : tb.ports) {
    if (!p.subtree()) { size_t s = p.name.find('/'); if (s != std::string::npos && p.name.find('#') == std::string::npos) p.name.erase(s, 1); }
    p.meta = gen_meta();
  }
  if (c.kind == 1) {
    // enumerated sub-trees whose pattern text is longer than addresses it matches ("v#16/" vs "v3/x"): the lookup does not
    // need the objects, so the index range may exceed what the instance holds
    for (auto &tb : c.tree.tables) for (auto &p : tb.ports)
      if ((p.kind == pt::RECURS || p.kind == pt::RECURSP) && vf::chance(35)) { size_t h = p.name.find('#'); p.name = p.name.substr(0, h + 1) + std::to_string(vf::oneof<int>({10, 16, 100})) + "/"; }
    make_prefix_free(c.tree);
    return c;
  }
  // kind 2: location = "", "/", or a sub-tree / leaf address of the tree; needle = prefix of some child name or arbitrary
  int lk = vf::pickn(6);
  if (lk == 0) c.location = "";
  else if (lk == 1) c.location = "/";
  else {
    // choose a path of sub-tree ports
    std::string a = "/";
    int table = 0;
    for (int d = 0; d < 2; d++) {
      std::vector<const pt::PPort *> subs, leaves;
      for (auto &p : c.tree.tables[(size_t)table].ports) (p.subtree() ? subs : leaves).push_back(&p);
      if (!subs.empty() && vf::chance(80)) {
        const pt::PPort *p = subs[(size_t)vf::pickn((int)subs.size())];
        a += pt::sample_name(p->name, 0);
        table = pt::table_id(pt::table_level(table) + 1, p->kind - 1);
        if (vf::chance(50)) break;
      } else if (!leaves.empty() && vf::chance(40)) { a += pt::sample_name(leaves[(size_t)vf::pickn((int)leaves.size())]->name, 0); break; }
      else break;
    }
    c.location = a;
  }
  // a location may be given without the leading '/' (the lookup skips it when it is there)
  if (c.location.size() > 1 && c.location[0] == '/' && vf::chance(30)) c.location.erase(0, 1);
  c.needle = vf::chance(40) ? "" : vf::strover("abc", 0, 2);
  c.opt = vf::pickn(3);
  c.with_query = vf::coin();
  c.spare = vf::oneof<int>({0, 0, 1, 2, 99});
  return c;
}

static std::string ref_collapse(const std::vector<std::string> &comps, bool trailing) {
  std::vector<std::string> st;
  for (auto &c : comps) {
    if (c == "..") { if (!st.empty()) st.pop_back(); }
    else st.push_back(c);
  }
  std::string r;
  for (auto &s : st) r += "/" + s;
  if (trailing && !st.empty()) r += "/";
  return r;
}

static std::string run_collapse(const Case &c, vf::Ctx &ctx) {
  std::string p = c.path();
  std::unique_ptr<char[]> hb(new char[p.size() + 1]);   // exact size: ASan guards both ends
  memcpy(hb.get(), p.c_str(), p.size() + 1);
  char *r = rtosc::Ports::collapsePath(hb.get());
  if (!(r >= hb.get() && r <= hb.get() + p.size())) return "collapsePath(\"" + p + "\") returns a pointer outside the buffer";
  std::string got(r), want = ref_collapse(c.comps, c.trailing_slash);
  // a trailing '/' behind a cancelled component: the statement does not say whether it survives
  if (c.trailing_slash) {
    std::string alt = ref_collapse(c.comps, false);
    if (got != want && got != alt && got != alt + "/") return "collapsePath(\"" + p + "\") = \"" + got + "\", expected \"" + want + "\"";
    ctx.count("collapse.trailing_slash(lenient)");
  } else if (got != want) return "collapsePath(\"" + p + "\") = \"" + got + "\", expected \"" + want + "\"";
  size_t dots = 0;
  for (auto &s : c.comps) if (s == "..") dots++;
  if (dots) ctx.nontriv(vf::fnv(p));
  ctx.count(dots ? "collapse.with_parent_refs" : "collapse.plain");
  return "";
}

struct W { std::vector<std::pair<const rtosc::Port *, std::string>> rep; };
static void walker(const rtosc::Port *p, const char *name, const char *, const rtosc::Ports &, void *data, void *) { ((W *)data)->rep.push_back({p, name}); }

static std::string run_apropos(const Case &c, vf::Ctx &ctx) {
  pt::Instance inst(c.tree);
  char buf[1024];
  memset(buf, 0, sizeof buf);
  W w;
  rtosc::walk_ports(&inst.rootports(), buf, sizeof buf, &w, walker, true, nullptr, false);
  for (auto &r : w.rep) {
    const rtosc::Port *p = inst.rootports().apropos(r.second.c_str());
    if (p != r.first) return "apropos(\"" + r.second + "\") returns " + (p ? std::string("port \"") + p->name + "\"" : std::string("NULL")) + ", the walk reported port \"" + r.first->name + "\" | " + c.tree.describe();
  }
  ctx.count("apropos.lookups", w.rep.size());
  if (w.rep.size() >= 2) ctx.nontriv(vf::fnv(c.describe()));
  return "";
}

static std::string run_search(const Case &c, vf::Ctx &ctx) {
  pt::Instance inst(c.tree);
  // model: which table/port does the location address?
  const pt::PTable *children = nullptr;
  const pt::PPort *single = nullptr;
  int ctable = -1;
  if (c.location.empty() || c.location == "/") { children = &c.tree.tables[0]; ctable = 0; }
  bool lookup_ambiguous = false;
  if (!(c.location.empty() || c.location == "/")) {
    // descend by the generated location (it was built from sub-tree names; each component ends with '/')
    std::string rest = c.location[0] == '/' ? c.location.substr(1) : c.location;   // with or without the leading slash
    int table = 0;
    while (true) {
      const pt::PTable &tb = c.tree.tables[(size_t)table];
      const pt::PPort *hit = nullptr;
      for (auto &p : tb.ports) {
        refmatch::Pattern pat = refmatch::parse(p.name);
        if (refmatch::path_matches(pat, rest)) { hit = &p; break; }   // first in table order, as a lookup does
      }
      // is the lookup at this level ambiguous by the tree itself? (several ports answer to the component, or a sibling's
      // name and the component are prefixes of each other - the lookup's documented prefix rule then decides, not the tree)
      {
        std::string comp = rest.substr(0, rest.find('/'));
        int related = 0;
        for (auto &p : tb.ports) {
          std::string nm = p.name.substr(0, p.name.find_first_of(":/#"));
          refmatch::Pattern pat = refmatch::parse(p.name);
          if (refmatch::path_matches(pat, rest) || (!nm.empty() && !comp.empty() && (comp.compare(0, nm.size(), nm) == 0 || nm.compare(0, comp.size(), comp) == 0))) related++;
        }
        if (related > 1 || (!hit && related > 0)) lookup_ambiguous = true;
      }
      if (!hit) break;
      if (hit->subtree() && pt::table_level(table) < 2) {
        size_t s = rest.find('/');
        int child = pt::table_id(pt::table_level(table) + 1, hit->kind - 1);
        if (s + 1 >= rest.size()) { children = &c.tree.tables[(size_t)child]; ctable = child; break; }
        rest = rest.substr(s + 1);
        table = child;
      } else { single = hit; break; }
    }
  }
  // siblings whose names are prefixes of each other make the lookup itself ambiguous (C18's own proviso): skip those
  {
    const rtosc::Port *ap = (c.location.empty() || c.location == "/") ? nullptr : inst.rootports().apropos(c.location.c_str());
    const rtosc::Ports *got_children = (c.location.empty() || c.location == "/") ? &inst.rootports() : (ap && ap->ports ? ap->ports : nullptr);
    const rtosc::Ports *want_children = ctable >= 0 ? inst.tabs[(size_t)ctable].get() : nullptr;
    bool same_single = single ? (ap && !ap->ports && std::string(ap->name) == single->name) : (!ap || ap->ports != nullptr || c.location.empty() || c.location == "/");
    // (the library's lookup is by prefix and takes the first of equally named ports; where it resolves the location
    //  differently from the model - duplicates, prefix siblings - the lookup, not the search, is ambiguous)
    if (got_children != want_children || !same_single) {
      if (lookup_ambiguous) { ctx.count("search.location_lookup_ambiguous(skipped)"); return ""; }
      return "the location \"" + c.location + "\" is resolved to " + (ap ? std::string("port \"") + ap->name + "\"" : std::string("nothing")) + ", the tree has " + (single ? "the leaf \"" + single->name + "\"" : ctable >= 0 ? std::string("a sub-tree") : std::string("nothing")) + " there (no sibling is a prefix of another on that path) | " + c.describe();
    }
  }
  struct E { std::string name, meta; bool has; };
  std::vector<E> exp;
  auto add = [&](const pt::PPort &p) {
    if (p.name.compare(0, c.needle.size(), c.needle) != 0) return;
    E e; e.name = p.name; e.has = !p.meta.empty();
    if (e.has) e.meta = p.meta + std::string(1, '\0');
    exp.push_back(e);
  };
  if (children) for (auto &p : children->ports) add(p);
  else if (single) add(*single);
  const size_t matched = exp.size();   // entries the search collects (before names below a 'name/' entry are removed)
  if (c.opt >= 1) std::stable_sort(exp.begin(), exp.end(), [](const E &a, const E &b) { return a.name < b.name; });
  if (c.opt == 2) {
    std::vector<E> kept;
    std::string dir;   // the last kept entry if it is a 'name/' entry
    for (auto &e : exp) {
      if (!dir.empty() && e.name.size() > dir.size() && e.name.compare(0, dir.size(), dir) == 0) continue;
      kept.push_back(e);
      dir = e.name.back() == '/' ? e.name : std::string();
    }
    exp = kept;
  }
  // request message and reply buffer
  std::vector<refosc::Val> qv(2);
  qv[0].t = 's'; qv[0].s = c.location; qv[1].t = 's'; qv[1].s = c.needle;
  pt::MsgBuf q("/path-search", "ss", &qv);
  size_t maxports = 1;
  for (auto &tb : c.tree.tables) maxports = std::max(maxports, tb.ports.size());
  maxports += 2;
  // the documented minimum ("maximum number (or higher) of child ports in any of your app's ports", one more entry for the
  // echoed query) and one or two spare entries: the reply has to be well-formed at every admissible capacity
  if (c.spare != 99) {
    maxports = maxports - 2 + (c.with_query ? 1 : 0) + (size_t)c.spare;
    ctx.count("search.max_ports_spare" + std::to_string(c.spare));
    if (matched + (c.with_query ? 1 : 0) == maxports) ctx.count("search.reply_fills_max_ports_exactly");
  }
  std::vector<char> out(1 << 16);
  rtosc::path_search_opts o = c.opt == 0 ? rtosc::path_search_opts::unmodified : c.opt == 1 ? rtosc::path_search_opts::sorted : rtosc::path_search_opts::sorted_and_unique_prefix;
  size_t len = rtosc::path_search(inst.rootports(), q.msg(), maxports, out.data(), out.size(), o, c.with_query);
  std::string D = " | " + c.describe();
  if (!len) return "path_search returns 0" + D;
  refosc::Decoded d = refosc::decode((const unsigned char *)out.data(), len);
  if (d.st != refosc::OK) return "reply is not a well-formed message: " + d.reason + D;
  if (d.address != "/paths") return "reply address is \"" + d.address + "\"" + D;
  size_t vi = 0;
  if (c.with_query) {
    if (d.vals.size() < 2 || d.vals[0].t != 's' || d.vals[1].t != 's') return "reply does not start with the two query strings" + D;
    if (std::string(out.data() + d.vals[0].off, d.vals[0].len) != c.location || std::string(out.data() + d.vals[1].off, d.vals[1].len) != c.needle) return "query strings not echoed" + D;
    vi = 2;
  }
  std::vector<E> got;
  for (; vi + 1 < d.vals.size(); vi += 2) {
    if (d.vals[vi].t != 's' || d.vals[vi + 1].t != 'b') return "reply is not a sequence of (string, blob) pairs: tags \"" + d.tags + "\"" + D;
    E e; e.name.assign(out.data() + d.vals[vi].off, d.vals[vi].len);
    e.meta.assign(out.data() + d.vals[vi + 1].off, d.vals[vi + 1].len);
    e.has = d.vals[vi + 1].len != 0;
    got.push_back(e);
  }
  if (vi != d.vals.size()) return "reply has a dangling argument: tags \"" + d.tags + "\"" + D;
  auto show = [](const std::vector<E> &v) { std::string s = "["; for (auto &e : v) s += "\"" + e.name + "\"(" + std::to_string(e.meta.size()) + "B) "; return s + "]"; };
  if (got.size() != exp.size()) return "path_search returns " + show(got) + ", expected " + show(exp) + D;
  if (c.opt >= 1) {
    for (size_t i = 1; i < got.size(); i++) if (got[i - 1].name > got[i].name) return "result not in string order: " + show(got) + D;
    auto key = [](const E &a, const E &b) { return a.name != b.name ? a.name < b.name : a.meta < b.meta; };
    std::sort(got.begin(), got.end(), key);
    std::sort(exp.begin(), exp.end(), key);
  }
  for (size_t i = 0; i < got.size(); i++) {
    if (got[i].name != exp[i].name) return "entry " + std::to_string(i) + " is \"" + got[i].name + "\", expected \"" + exp[i].name + "\": " + show(got) + " vs " + show(exp) + D;
    if (got[i].meta != exp[i].meta) return "metadata of \"" + got[i].name + "\": " + std::to_string(got[i].meta.size()) + " bytes returned, the block has " + std::to_string(exp[i].meta.size()) + " bytes (or contents differ)" + D;
  }
  ctx.count("search.opt" + std::to_string(c.opt));
  ctx.count(children ? "search.children" : single ? "search.single_port" : "search.no_such_location");
  if (exp.size() >= 2 || !c.needle.empty()) ctx.nontriv(vf::fnv(c.describe()));
  return "";
}

std::string vf_run(const Case &c, vf::Ctx &ctx) {
  if (c.kind == 0) return run_collapse(c, ctx);
  if (c.kind == 1) return run_apropos(c, ctx);
  return run_search(c, ctx);
}
std::string vf_enumerate(vf::Ctx &, int, int, long) { return ""; }
VF_MAIN(Case)
