// C11 - the scanner accepts the documented text syntax and canonicalises it.
// Sentences are built constructively from (value, spelling) choices per doc/Guide.adoc; the expected
// values are known by construction (numeric spellings evaluated with strtol/strtof/strtod).
#include "common/avgen.hpp"
#include <rtosc/pretty-format.h>
#include <rtosc/rtosc-time.h>
#include <memory>
#include <ctime>

using avg::V;

struct Tok {
  std::vector<std::string> parts;  // joined by intra-token whitespace (no comments)
  std::vector<V> vals;             // expected expansion
  char first = 0, last = 0;        // value types at the borders (for the range adjacency rules)
  bool range = false;              // token is / ends with a range construct
  std::string kind;
  template <class A> void io(A &a) { a(parts)(vals)(first)(last)(range)(kind); }
};
struct Case {
  std::vector<Tok> toks;
  std::vector<std::string> seps1, seps2;  // separators between tokens (seps[i] follows token i), two layouts
  std::vector<std::string> intra;         // pool of intra-token separators
  template <class A> void io(A &a) { a(toks)(seps1)(seps2)(intra); }
  std::string text(const std::vector<std::string> &seps, size_t shift) const {
    std::string t;
    size_t k = shift;
    for (size_t i = 0; i < toks.size(); i++) {
      for (size_t p = 0; p < toks[i].parts.size(); p++) {
        if (p) {
          // no whitespace is needed (and none inserted) right after '[' ... keep at least one elsewhere
          t += intra.empty() ? " " : intra[k++ % intra.size()];
        }
        t += toks[i].parts[p];
      }
      t += seps[i];
    }
    return t;
  }
  std::vector<V> expected() const { std::vector<V> e; for (auto &t : toks) for (auto &v : t.vals) e.push_back(v); return e; }
  std::string describe() const { return "text=\"" + vf::esc(text(seps1, 0)) + "\""; }
};
const char *vf_property() { return "C11"; }
void vf_init() { setenv("TZ", "UTC", 1); tzset(); }

static V mk(char t) { V v; v.t = t; return v; }
static V mki(char t, int64_t i) { V v; v.t = t; v.i = i; return v; }
static V mkd(char t, double d) { V v; v.t = t; v.d = d; return v; }
static V mks(char t, const std::string &s) { V v; v.t = t; v.s = s; return v; }

static Tok one(const std::string &text, const V &v, const char *kind) {
  Tok t; t.parts = {text}; t.vals = {v}; t.first = t.last = v.t; t.kind = kind; return t;
}

// ---- numeric spellings
static Tok gen_int() {
  int k = vf::pickn(7);
  char b[64];
  long v;
  switch (k) {
    case 0: case 1: v = vf::chance(70) ? vf::pick<int>(-100, 100) : vf::pick<int>(-2147483647, 2147483647); snprintf(b, sizeof b, "%ld", v); return one(b, mki('i', v), "int.dec");
    case 2: v = vf::pick<int>(0, 0x7fffffff); if (vf::coin()) v &= 0xffff; snprintf(b, sizeof b, vf::coin() ? "0x%lx" : "0X%lX", v); return one(b, mki('i', strtol(b, 0, 0)), "int.hex");
    case 3: v = vf::pick<int>(0, 4000); snprintf(b, sizeof b, "0%lo", v); if (vf::known("octal-as-decimal") && v >= 8) { vf::G().ctx.count("excluded.octal-as-decimal"); snprintf(b, sizeof b, "%ld", v); return one(b, mki('i', v), "int.dec(octal excluded)"); } return one(b, mki('i', strtol(b, 0, 0)), "int.oct");
    case 4: v = vf::pick<int>(-1000, 1000); snprintf(b, sizeof b, "%ldi", v); return one(b, mki('i', v), "int.suffix");
    case 5: v = vf::pick<int>(0, 0xfffff); snprintf(b, sizeof b, "0x%lxi", v); return one(b, mki('i', v), "int.hex_suffix");
    default: v = -vf::pick<int>(1, 0x7fff); snprintf(b, sizeof b, "-0x%lx", -v); return one(b, mki('i', v), "int.neg_hex");
  }
}
static Tok gen_h() {
  char b[64];
  int k = vf::pickn(4);
  long long v;
  switch (k) {
    case 0: v = vf::chance(60) ? vf::pick<int>(-100, 100) : (long long)(vf::bits64() >> 1) * (vf::coin() ? 1 : -1); snprintf(b, sizeof b, "%lldh", v); return one(b, mki('h', v), "h.dec");
    case 1: v = (long long)(vf::bits64() >> vf::pick<int>(1, 60)); snprintf(b, sizeof b, "0x%llxh", v); return one(b, mki('h', v), "h.hex");
    case 2: v = vf::pick<int>(8, 100000); snprintf(b, sizeof b, "0%lloh", v); return one(b, mki('h', v), "h.oct");
    default: v = vf::pick<int>(-9, 9); snprintf(b, sizeof b, "%lldh", v); return one(b, mki('h', v), "h.small");
  }
}
static std::string fnum() {  // decimal float spelling
  char b[64];
  switch (vf::pickn(6)) {
    case 0: snprintf(b, sizeof b, "%d.", vf::pick<int>(-50, 50)); break;
    case 1: snprintf(b, sizeof b, "%d.%d", vf::pick<int>(-50, 50), vf::pick<int>(0, 9999)); break;
    case 2: snprintf(b, sizeof b, "%de%d", vf::pick<int>(1, 99), vf::pick<int>(0, 20)); break;
    case 3: snprintf(b, sizeof b, "%de-%d", vf::pick<int>(1, 99), vf::pick<int>(1, 20)); break;
    case 4: snprintf(b, sizeof b, "%d.%de%s%d", vf::pick<int>(0, 9), vf::pick<int>(0, 99), vf::coin() ? "-" : "", vf::pick<int>(0, 9)); break;
    default: snprintf(b, sizeof b, "%d.%02d", vf::pick<int>(-9, 9), vf::pick<int>(0, 99)); break;
  }
  return b;
}
static Tok gen_f() {
  char b[96];
  int k = vf::pickn(7);
  std::string s;
  switch (k) {
    case 0: case 1: s = fnum(); return one(s, mkd('f', strtof(s.c_str(), 0)), "f.plain");
    case 2: s = fnum(); return one(s + "f", mkd('f', strtof(s.c_str(), 0)), "f.suffix");
    case 3: snprintf(b, sizeof b, "%df", vf::pick<int>(-99, 99)); return one(b, mkd('f', (float)atoi(b)), "f.int_suffix");
    case 4: snprintf(b, sizeof b, "0x%xp%+d", vf::pick<int>(1, 0xfff), vf::pick<int>(-12, 12)); return one(b, mkd('f', strtof(b, 0)), "f.hexfloat");
    case 5: snprintf(b, sizeof b, "0x%x.%xp%+d", vf::pick<int>(0, 15), vf::pick<int>(1, 0xff), vf::pick<int>(-12, 12)); return one(b, mkd('f', strtof(b, 0)), "f.hexfloat_frac");
    default: {  // rounded value followed by the exact value in parentheses
      uint32_t u; float f;
      do { u = vf::bits32(); memcpy(&f, &u, 4); } while (!std::isfinite(f) || fabsf(f) > 1e30f || (f != 0 && fabsf(f) < 1e-30f));
      if (vf::coin()) f = (float)vf::pick<int>(-4000, 4000) / 64.0f;
      char ex[64]; snprintf(ex, sizeof ex, "%a", f);
      snprintf(b, sizeof b, "%.*f", vf::pick<int>(1, 6), f);
      Tok t; t.parts = {b, std::string("(") + ex + ")"}; t.vals = {mkd('f', f)}; t.first = t.last = 'f'; t.kind = "f.exact_in_parens";
      if (vf::coin()) t.parts = {b, "(", ex, ")"};
      return t;
    }
  }
}
static Tok gen_d() {
  char b[96];
  int k = vf::pickn(4);
  std::string s;
  switch (k) {
    case 0: case 1: s = fnum(); return one(s + "d", mkd('d', strtod(s.c_str(), 0)), "d.suffix");
    case 2: snprintf(b, sizeof b, "%dd", vf::pick<int>(-99, 99)); return one(b, mkd('d', (double)atoi(b)), "d.int_suffix");
    default: {
      double f = vf::coin() ? (double)vf::pick<int>(-4000, 4000) / 64.0 : (double)vf::pick<int>(-100000, 100000) / 1000.0;
      char ex[64]; snprintf(ex, sizeof ex, "%a", f);
      snprintf(b, sizeof b, "%.*fd", vf::pick<int>(1, 6), f);
      Tok t; t.parts = {b, std::string("(") + ex + ")"}; t.vals = {mkd('d', f)}; t.first = t.last = 'd'; t.kind = "d.exact_in_parens";
      return t;
    }
  }
}
static const char ESC_C[] = "abtnvfr\\";
static const char ESC_V[] = "\a\b\t\n\v\f\r\\";
static Tok gen_char() {
  int k = vf::pickn(5);
  if (k == 0) { int e = vf::pickn(8); return one(std::string("'\\") + ESC_C[e] + "'", mki('c', ESC_V[e]), "c.escape"); }
  if (k == 1) return one("'\\''", mki('c', '\''), "c.quote");
  char ch;
  do ch = (char)vf::pick<int>(32, 126); while (ch == '\'' || ch == '\\');
  return one(std::string("'") + ch + "'", mki('c', ch), "c.plain");
}
static void str_piece(std::string &text, std::string &val, int maxlen) {
  int n = vf::sized<int>(0, maxlen);
  for (int i = 0; i < n; i++) {
    int k = vf::pickn(8);
    if (k == 0) { int e = vf::pickn(8); text += '\\'; text += ESC_C[e]; val += ESC_V[e]; }
    else if (k == 1) { text += "\\\""; val += '"'; }
    else {
      char ch;
      do ch = (char)vf::pick<int>(32, 126); while (ch == '"' || ch == '\\');
      if (vf::chance(10)) ch = vf::oneof<char>({'%', '[', ']', '.', '(', ')', '#', '\''});
      text += ch; val += ch;
    }
  }
}
static Tok gen_string(bool symbol) {
  std::string text = "\"", val;
  str_piece(text, val, 12);
  Tok t;
  int pieces = vf::chance(25) ? vf::pick<int>(1, 2) : 0;  // concatenation: "..."\ <ws> "..."
  t.parts.clear();
  for (int p = 0; p < pieces; p++) {
    text += "\"\\";
    t.parts.push_back(text);
    text = "\"";
    str_piece(text, val, 8);
  }
  text += "\"";
  if (symbol) text += "S";
  t.parts.push_back(text);
  t.vals = {mks(symbol ? 'S' : 's', val)};
  t.first = t.last = symbol ? 'S' : 's';
  t.kind = symbol ? (pieces ? "S.quoted_concat" : "S.quoted") : (pieces ? "s.concat" : "s.plain");
  return t;
}
static Tok gen_ident() {
  static const std::string F = "abcdefgijklmopqrsuvwxyzABCDEFGHIJKLNOPQRSTUVWXYZ_", R = "abcdefghijklmnopqrstuvwxyzABCXYZ_0123456789";
  std::string s;
  if (vf::chance(15)) s = vf::oneof<std::string>({"truex", "falsey", "nilly", "info", "nowhere", "immediately_", "MIDIx", "BLOBx", "M", "B", "x1", "t", "f", "n", "i", "e5", "x"});
  else { s += F[(size_t)vf::pickn((int)F.size())]; int n = vf::sized<int>(0, 10); for (int i = 0; i < n; i++) s += R[(size_t)vf::pickn((int)R.size())]; }
  // a generated identifier that spells a reserved word denotes that word, not a symbol (seed sweep, VERIF_SEED=10: "inf")
  for (const char *w : {"true", "false", "nil", "inf", "now", "immediately", "MIDI", "BLOB"}) if (s == w) s += "_";
  return one(s, mks('S', s), "S.identifier");
}
static Tok gen_keyword() {
  switch (vf::pickn(6)) {
    case 0: return one("true", mk('T'), "T");
    case 1: return one("false", mk('F'), "F");
    case 2: return one("nil", mk('N'), "N");
    case 3: return one("inf", mk('I'), "I");
    case 4: return one("now", mki('t', 1), "t.now");
    default: return one("immediately", mki('t', 1), "t.immediately");
  }
}
static Tok gen_date() {
  struct tm tm;
  memset(&tm, 0, sizeof tm);
  int year = vf::pick<int>(1970, 2105), mon = vf::pick<int>(1, 12), day = vf::pick<int>(1, 28);
  int form = vf::pickn(4);
  int hh = 0, mm = 0, ss = 0;
  uint64_t frac = 0;
  char b[96];
  int n = snprintf(b, sizeof b, "%04d-%02d-%02d", year, mon, day);
  Tok t;
  if (form >= 1) { hh = vf::pick<int>(0, 23); mm = vf::pick<int>(0, 59); t.parts.push_back(b); n = snprintf(b, sizeof b, "%02d:%02d", hh, mm); }
  if (form >= 2) { ss = vf::pick<int>(0, 59); n += snprintf(b + n, sizeof b - n, ":%02d", ss); }
  if (form >= 3) {
    // fraction: dyadic or >= 0.004 with <= 3 digits, so that float -> 2^-32 units is exact
    char fb[16];
    if (vf::coin()) snprintf(fb, sizeof fb, ".%s", vf::oneof<std::string>({"5", "25", "125", "75", "0625", "375", "875", "50", "250"}).c_str());
    else snprintf(fb, sizeof fb, ".%03d", vf::pick<int>(4, 999));
    float f = strtof(fb, 0);
    frac = (uint64_t)((double)f * 4294967296.0);
    n += snprintf(b + n, sizeof b - n, "%s", fb);
  }
  t.parts.push_back(b);
  tm.tm_year = year - 1900; tm.tm_mon = mon - 1; tm.tm_mday = day; tm.tm_hour = hh; tm.tm_min = mm; tm.tm_sec = ss;
  time_t secs = timegm(&tm);
  V v = mki('t', (int64_t)(((uint64_t)secs << 32) | frac));
  t.vals = {v};
  t.first = t.last = 't';
  t.kind = std::string("t.date_form") + std::to_string(form);
  return t;
}
static Tok gen_midi() {
  uint32_t u = vf::bits32();
  char b[64];
  snprintf(b, sizeof b, "[0x%02x", (u >> 24) & 0xff);
  Tok t;
  t.parts = {"MIDI", b};
  for (int k = 2; k >= 1; k--) { snprintf(b, sizeof b, "0x%02x", (u >> (8 * k)) & 0xff); t.parts.push_back(b); }
  snprintf(b, sizeof b, "0x%02x]", u & 0xff);
  t.parts.push_back(b);
  t.vals = {mki('m', (int32_t)u)};
  t.first = t.last = 'm';
  t.kind = "m";
  return t;
}
static Tok gen_blob() {
  int n = vf::sized<int>(0, 8);
  std::string val;
  Tok t;
  char b[32];
  t.parts = {"BLOB"};
  snprintf(b, sizeof b, "[%d", n);
  std::string cur = b;
  for (int i = 0; i < n; i++) { t.parts.push_back(cur); unsigned char c = (unsigned char)vf::pick<int>(0, 255); val += (char)c; snprintf(b, sizeof b, "0x%02x", c); cur = b; }
  t.parts.push_back(cur + "]");
  t.vals = {mks('b', val)};
  t.first = t.last = 'b';
  t.kind = "b";
  return t;
}
static Tok gen_color() {
  uint32_t u = vf::bits32();
  char b[16];
  snprintf(b, sizeof b, vf::coin() ? "#%08x" : "#%08X", u);
  return one(b, mki('r', (int32_t)u), "r");
}

static Tok gen_plain(const char *types) {
  char t = types[vf::pickn((int)strlen(types))];
  switch (t) {
    case 'i': return gen_int();
    case 'h': return gen_h();
    case 'f': return gen_f();
    case 'd': return gen_d();
    case 'c': return gen_char();
    case 's': return gen_string(false);
    case 'S': return vf::coin() ? gen_ident() : gen_string(true);
    case 'K': return gen_keyword();
    case 't': return gen_date();
    case 'm': return gen_midi();
    case 'b': return gen_blob();
    default: return gen_color();
  }
}
static const char PLAIN[] = "iiihffdcsSSKtmbr";

// ---- ranges. Exact arithmetic only (ints, chars, dyadic floats).
static std::string spell(const V &v) {
  char b[64];
  switch (v.t) {
    case 'i': snprintf(b, sizeof b, "%lld", (long long)v.i); return b;
    case 'h': snprintf(b, sizeof b, "%lldh", (long long)v.i); return b;
    case 'c': return std::string("'") + (char)v.i + "'";
    case 'f': snprintf(b, sizeof b, "%.4f", v.d); return b;
    case 'd': snprintf(b, sizeof b, "%.4fd", v.d); return b;
  }
  return "?";
}
static Tok gen_range(bool with_a, char want = 0) {
  char t = want ? want : "iihcfd"[vf::pickn(6)];
  V s = mk(t), d = mk(t);
  int n = vf::pick<int>(2, 7);  // elements from b to c
  if (t == 'f' || t == 'd') { s.d = vf::pick<int>(-20, 20) / 4.0; d.d = with_a ? vf::oneof<double>({0.25, 0.5, -0.5, 2.0, 1.0, -1.0}) : (vf::coin() ? 1.0 : -1.0); }
  else if (t == 'c') { s.i = vf::pick<int>(60, 90); d.i = with_a ? vf::oneof<int>({1, 2, -1, -2}) : (vf::coin() ? 1 : -1); }
  else { s.i = vf::pick<int>(-50, 50); d.i = with_a ? vf::oneof<int>({1, 2, 3, -1, -2, 10, -7}) : (vf::coin() ? 1 : -1); }
  Tok tk;
  V b0 = s;  // b
  if (with_a) {
    V neg = d; if (t == 'f' || t == 'd') neg.d = -d.d; else neg.i = -d.i;
    V a = avg::nth(s, neg, 1);  // a = b - d
    tk.parts.push_back(spell(a));
    tk.vals.push_back(a);
  }
  tk.parts.push_back(spell(b0));
  tk.parts.push_back("...");
  tk.parts.push_back(spell(avg::nth(s, d, n - 1)));
  for (int k = 0; k < n; k++) tk.vals.push_back(avg::nth(s, d, k));
  tk.first = tk.last = t;
  tk.range = true;
  tk.kind = with_a ? "range.a_b_c" : "range.b_c";
  return tk;
}
// numbers counting up or down written out one by one (the printer will compress them), optionally behind another number of the same type
static Tok gen_run(char want = 0) {
  char t = want ? want : "ihc"[vf::pickn(3)];
  V s = mk(t), d = mk(t);
  s.i = t == 'c' ? vf::pick<int>(60, 90) : vf::pick<int>(-50, 50);
  d.i = vf::chance(70) ? (vf::coin() ? 1 : -1) : vf::oneof<int>({2, -2, 3, 0});
  int n = vf::pick<int>(3, 9);
  Tok tk;
  if (vf::chance(60)) { V lead = mk(t); lead.i = s.i + vf::oneof<int>({-6, -3, -2, -1, 0, 1, 2, 5, 40}) ; if (t == 'c' && (lead.i < 33 || lead.i > 126)) lead.i = 'A'; tk.parts.push_back(spell(lead)); tk.vals.push_back(lead); }
  for (int k = 0; k < n; k++) { V v = avg::nth(s, d, k); tk.parts.push_back(spell(v)); tk.vals.push_back(v); }
  tk.first = tk.last = t;
  tk.kind = "plain.run";
  return tk;
}
static Tok gen_array();
static Tok gen_repeat(bool allow_array, const char *eltypes = "iihfdcsSKmbr") {
  int n = vf::chance(75) ? vf::pick<int>(1, 6) : vf::oneof<int>({10, 12, 20, 30, 100, 101, 9, 19});
  Tok el = (allow_array && vf::chance(20)) ? gen_array() : gen_plain(eltypes);
  Tok t;
  t.parts = el.parts;
  t.parts[0] = std::to_string(n) + "x" + t.parts[0];
  for (int k = 0; k < n; k++) for (auto &v : el.vals) t.vals.push_back(v);
  t.first = t.last = el.first;
  t.range = true;
  t.kind = "repeat." + el.kind;
  return t;
}
static Tok gen_array() {
  static const char *ELT[] = {"i", "h", "f", "d", "c", "s", "S", "K", "m", "r", "b"};
  std::string et = ELT[vf::pickn(11)];
  V arr = mk('a');
  Tok t;
  t.parts = {"["};
  int n = vf::sized<int>(0, 6);
  char lasttype = 0;
  bool last_range = false, dots_inside = false;
  std::string kind = "array";
  for (int i = 0; i < n; i++) {
    Tok e;
    int k = vf::pickn(10);
    bool numeric = strchr("ihfdc", et[0]) != nullptr;
    if (k == 0 && numeric && !last_range) {
      // finite range inside the array; the previous element would be taken as 'a', so only directly after '[' or with explicit a
      e = gen_range(true, et[0]);
      kind = "array.with_range";
      dots_inside = true;
    } else if (k == 2 && (et == "i" || et == "h" || et == "c") && !last_range) {
      // numbers counting up/down written out one by one: the printer compresses them (possibly two runs side by side)
      e = gen_run(et[0]);
      kind = "array.with_run";
      dots_inside = true;
    } else if (k == 1) {
      if (et == "K") { e = vf::coin() ? one("true", mk('T'), "T") : one("false", mk('F'), "F"); int rn = vf::chance(75) ? vf::pick<int>(1, 6) : vf::oneof<int>({10, 20, 100}); e.parts[0] = std::to_string(rn) + "x" + e.parts[0]; V v0 = e.vals[0]; e.vals.assign((size_t)rn, v0); e.range = true; e.kind = "repeat." + e.kind; }
      else e = gen_repeat(false, et.c_str());
      kind = "array.with_repeat";
    } else {
      if (et == "K") e = vf::coin() ? one("true", mk('T'), "T") : one("false", mk('F'), "F");
      else e = gen_plain(et.c_str());
      if (last_range && numeric) continue;  // a plain number right after a range would be ambiguous: skip one slot
    }
    // an 'a b ... c' range directly behind another same-type number is ambiguous (which one is 'a'?): only allow at the start
    if (e.kind.rfind("range", 0) == 0 && i != 0) continue;
    for (auto &p : e.parts) t.parts.push_back(p);
    for (auto &v : e.vals) arr.el.push_back(v);
    lasttype = e.last;
    last_range = e.range;
  }
  // optional open-ended range at the very end: "a b ...", "b ..." ; only for scalar element types
  if (vf::chance(25) && !last_range && !arr.el.empty() && et != "m" && et != "b") {
    V inf = mk('-');
    V b = arr.el.back();
    bool has_a = arr.el.size() >= 2;
    bool numeric = strchr("ihfdc", b.t) != nullptr;
    if (has_a && numeric && arr.el[arr.el.size() - 2].t == b.t && !avg::v_same(arr.el[arr.el.size() - 2], b) && (b.t == 'i' || b.t == 'h' || b.t == 'c')) {
      V d = avg::delta_of(arr.el[arr.el.size() - 2], b);
      inf.at = 'd'; inf.el = {b, d};
    } else if (!has_a || avg::v_same(arr.el[arr.el.size() - 2], b) || (!numeric && b.t != 'T' && b.t != 'F')) {
      inf.at = 'c'; inf.el = {b};
    } else inf.at = 0;
    if (inf.at) {
      arr.el.pop_back();      // b becomes the start of the infinite range
      arr.el.push_back(inf);
      t.parts.push_back("...");
      kind = inf.at == 'd' ? "array.open_range_delta" : "array.open_range_const";
    }
  }
  (void)lasttype;
  t.parts.push_back("]");
  arr.at = arr.el.empty() ? ' ' : (arr.el[0].t == '-' ? arr.el[0].el[0].t : arr.el[0].t);
  t.vals = {arr};
  t.first = t.last = 'a';
  t.kind = kind;
  return t;
}

static std::string gen_sep(bool allow_comment, bool last) {
  std::string s;
  int n = vf::pick<int>(0, 3);
  s += vf::oneof<std::string>({" ", " ", " ", "\t", "\n", "  "});
  for (int i = 0; i < n; i++) {
    int k = vf::pickn(5);
    if (k <= 1) s += " ";
    else if (k == 2) s += "\t";
    else if (k == 3) s += "\n";
    else if (allow_comment) s += "% " + vf::oneof<std::string>({"comment", "1 2 3", "\"quoted", "... [ ]", "", "it's 'x'", "% %"}) + "\n";
  }
  if (last && vf::chance(60)) s.clear();
  return s;
}

Case vf_generate() {
  Case c;
  int n = vf::sized<int>(1, 10);
  for (int i = 0; i < n; i++) {
    Tok t;
    int k = vf::pickn(20);
    char prev = c.toks.empty() ? 0 : c.toks.back().last;
    bool prev_range = !c.toks.empty() && c.toks.back().range;
    if (k == 0) t = gen_range(true);
    else if (k == 1) t = gen_range(false);
    else if (k <= 3) t = gen_repeat(true);
    else if (k <= 5) t = gen_array();
    else if (k == 6) t = gen_run();
    else t = gen_plain(PLAIN);
    // adjacency rules from the manual: a range's 'a' is whatever same-type value precedes 'b';
    // ranges may not overlap. Keep a differently typed token between a range and same-type numbers.
    bool numeric = strchr("ihfdc", t.first) != nullptr;
    if (t.kind.rfind("range", 0) == 0 && prev == t.first) continue;
    if (t.kind == "range.b_c" && !c.toks.empty() && vf::known("range-after-array") && c.toks.back().vals.back().t == 'a') {
      vf::G().ctx.count("excluded.range-after-array");
      continue;
    }
    if (t.kind == "range.b_c" && !c.toks.empty() && vf::known("ellipsis-lookbehind")) {
      bool dots = false;
      for (auto &p : c.toks.back().parts) if (p.find("...") != std::string::npos) dots = true;
      if (dots) { vf::G().ctx.count("excluded.ellipsis-lookbehind"); continue; }
    }
    if (prev_range && numeric && prev == t.first) continue;
    if (!c.toks.empty() && vf::known("ellipsis-lookbehind")) {
      // the same finding through the printer: a written-out run is printed as 'b ... c'; keep it away from anything whose printed form has an ellipsis
      auto dotty = [](const Tok &k) { if (k.range || k.kind == "plain.run" || k.kind.rfind("array", 0) == 0 || k.kind.rfind("repeat", 0) == 0) return true; for (auto &p : k.parts) if (p.find("...") != std::string::npos) return true; return false; };
      if ((t.kind == "plain.run" && dotty(c.toks.back())) || (c.toks.back().kind == "plain.run" && dotty(t))) { vf::G().ctx.count("excluded.ellipsis-lookbehind"); continue; }
    }
    c.toks.push_back(t);
  }
  if (vf::known("ellipsis-lookbehind")) {
    // the same finding through the printer: five or more numbers of one type in a row (single numbers and written-out runs
    // mixed, e.g. "7h" + "6h 5h 4h 3h") may be printed as 'b ... c'; such a chain is kept away from any neighbour whose
    // printed form has an ellipsis by putting a 'nil' in between
    auto chainable = [](const Tok &t) { return !t.range && (t.kind == "plain.run" || t.vals.size() == 1) && (t.first == 'i' || t.first == 'h' || t.first == 'c') && t.last == t.first; };
    auto dots = [](const Tok &k) { if (k.range || k.kind.rfind("array", 0) == 0 || k.kind.rfind("repeat", 0) == 0) return true; for (auto &p : k.parts) if (p.find("...") != std::string::npos) return true; return false; };
    std::vector<Tok> out;
    for (size_t i = 0; i < c.toks.size();) {
      if (!chainable(c.toks[i])) { out.push_back(c.toks[i]); i++; continue; }
      size_t j = i, nvals = 0;
      while (j < c.toks.size() && chainable(c.toks[j]) && c.toks[j].first == c.toks[i].first) { nvals += c.toks[j].vals.size(); j++; }
      bool before = !out.empty() && dots(out.back()), after = j < c.toks.size() && dots(c.toks[j]);
      if (nvals >= 5 && before) { out.push_back(one("nil", mk('N'), "N")); vf::G().ctx.count("excluded.ellipsis-lookbehind"); }
      for (size_t k = i; k < j; k++) out.push_back(c.toks[k]);
      if (nvals >= 5 && after) { out.push_back(one("nil", mk('N'), "N")); vf::G().ctx.count("excluded.ellipsis-lookbehind"); }
      i = j;
    }
    c.toks = out;
  }
  for (size_t i = 0; i < c.toks.size(); i++) {
    bool last = i + 1 == c.toks.size();
    c.seps1.push_back(gen_sep(true, last));
    c.seps2.push_back(gen_sep(true, last));
  }
  if (vf::known("ellipsis-lookbehind"))
    for (size_t i = 1; i < c.toks.size(); i++)
      if (c.toks[i].kind == "range.b_c")
        for (auto *sp : {&c.seps1, &c.seps2}) {
          std::string &s = (*sp)[i - 1];
          size_t p;
          bool hit = false;
          while ((p = s.find("...")) != std::string::npos) { s.replace(p, 3, ". ."); hit = true; }
          if (hit) vf::G().ctx.count("excluded.ellipsis-lookbehind");
        }
  int ni = vf::pick<int>(1, 5);
  for (int i = 0; i < ni; i++) c.intra.push_back(vf::oneof<std::string>({" ", " ", "  ", "\t", "\n", " \n "}));
  return c;
}

struct Scan { std::vector<V> vals; std::vector<rtosc_arg_val_t> raw; std::unique_ptr<char[]> sb; std::string err; };
static void scan(const std::string &text, Scan &s) {
  int count = rtosc_count_printed_arg_vals(text.c_str());
  if (count <= 0) { s.err = "syntax checker rejects the text (returns " + std::to_string(count) + ")"; return; }
  const size_t SLACK = 16;
  s.raw.assign((size_t)count + SLACK, rtosc_arg_val_t());
  memset(s.raw.data(), 0xCD, s.raw.size() * sizeof(rtosc_arg_val_t));
  const size_t SB = 1 << 14;
  s.sb.reset(new char[SB]);
  size_t rd = rtosc_scan_arg_vals(text.c_str(), s.raw.data(), (size_t)count, s.sb.get(), SB);
  size_t written = 0;
  for (size_t i = 0; i < s.raw.size(); i++) if ((unsigned char)s.raw[i].type != 0xCD) written = i + 1;
  if (written != (size_t)count) { s.err = "checker counts " + std::to_string(count) + " values, scanner wrote " + std::to_string(written); return; }
  if (rd != text.size()) { s.err = "scanner consumed " + std::to_string(rd) + " of " + std::to_string(text.size()) + " bytes"; return; }
  s.raw.resize((size_t)count);
  std::string e;
  if (avg::expand(s.raw.data(), s.raw.size(), s.vals, e) != s.raw.size()) s.err = "scanned layout malformed: " + e;
}

std::string vf_run(const Case &c, vf::Ctx &ctx) {
  std::string t1 = c.text(c.seps1, 0), t2 = c.text(c.seps2, 1);
  std::vector<V> exp = c.expected();
  Scan s1, s2, s3;
  scan(t1, s1);
  if (!s1.err.empty()) return s1.err + " | text=\"" + vf::esc(t1) + "\"";
  std::string where;
  if (!avg::list_same(exp, s1.vals, where)) return "scanned values differ from what the spelling denotes: " + where + " (expected vs scanned) | text=\"" + vf::esc(t1) + "\"";
  // whitespace / comment invariance
  scan(t2, s2);
  if (!s2.err.empty()) return "second layout: " + s2.err + " | text=\"" + vf::esc(t2) + "\"";
  if (!avg::list_same(s1.vals, s2.vals, where)) return "texts differing only in whitespace/comments scan differently: " + where + " | \"" + vf::esc(t1) + "\" vs \"" + vf::esc(t2) + "\"";
  // print the scanned values and scan again
  {
    const size_t BS = 1 << 15;
    std::unique_ptr<char[]> hb(new char[BS + 8]);
    memset(hb.get(), ' ', 8);
    char *buf = hb.get() + 8;
    rtosc_print_options opt = {true, 3, " ", 80, true};
    size_t w = rtosc_print_arg_vals(s1.raw.data(), s1.raw.size(), buf, BS, &opt, 0);
    std::string t3(buf, strnlen(buf, BS));
    if (w != t3.size()) return "printer return value " + std::to_string(w) + " != text length " + std::to_string(t3.size());
    scan(t3, s3);
    if (!s3.err.empty()) return "re-scan of printed values: " + s3.err + " | printed=\"" + vf::esc(t3) + "\" from \"" + vf::esc(t1) + "\"";
    if (!avg::list_same(s1.vals, s3.vals, where)) return "print+scan changes the values: " + where + " | printed=\"" + vf::esc(t3) + "\" from \"" + vf::esc(t1) + "\"";
  }
  std::set<std::string> kinds;
  for (auto &t : c.toks) { kinds.insert(t.kind.substr(0, t.kind.find('.'))); ctx.count("kind." + t.kind); }
  bool ins = false;
  for (auto &s : c.seps1) if (s.size() > 1) ins = true;
  if (t1.find('%') != std::string::npos) ctx.count("class.has_comment");
  if (kinds.size() >= 2 || ins) ctx.nontriv(vf::fnv(t1));
  return "";
}
std::string vf_enumerate(vf::Ctx &, int, int, long) { return ""; }
VF_MAIN(Case)
