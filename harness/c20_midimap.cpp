// C20 - a learned MIDI controller drives exactly its parameter, within its range.
// MidiMapperRT and MidiMappernRT are wired through two harness-owned FIFOs; deliveries are explicit operations,
// so every admissible exchange order between the two halves is generated.
#include "common/vf.hpp"
#include "common/refosc.hpp"
#include <rtosc/miditable.h>
#include <rtosc/ports.h>
#include <rtosc/port-sugar.h>
#include <deque>
#include <map>
#include <cmath>

struct App { int vol, pan; float freq, q; static const rtosc::Ports ports; };
#define rObject App
const rtosc::Ports App::ports = {
    rParamI(vol, rLinear(0, 127), "d"), rParamI(pan, rLinear(-64, 63), "d"), rParamF(freq, rLinear(20, 20000), "d"), rParamF(q, rLinear(0.1, 15.2), "d"),
};
#undef rObject
struct P { const char *path; char type; double mn, mx; };
static const P PARAMS[4] = {{"/vol", 'i', 0, 127}, {"/pan", 'i', -64, 63}, {"/freq", 'f', 20, 20000}, {"/q", 'f', 0.1, 15.2}};

struct Op {
  int kind = 0;   // 0 map 1 CC 2 unMap 3 clear 4 deliver nRT->RT 5 deliver RT->nRT
  int addr = 0; bool coarse = true; int id = 0, val = 0;
  template <class A> void io(A &a) { a(kind)(addr)(coarse)(id)(val); }
};
struct Case {
  int naddr = 2, nids = 2;
  std::vector<Op> ops;
  template <class A> void io(A &a) { a(naddr)(nids)(ops); }
  std::string describe() const {
    std::string d;
    for (auto &o : ops) {
      switch (o.kind) {
        case 0: d += std::string(" map(") + PARAMS[o.addr].path + (o.coarse ? ",coarse)" : ",fine)"); break;
        case 1: d += " cc(" + std::to_string(o.id) + "," + std::to_string(o.val) + ")"; break;
        case 2: d += std::string(" unmap(") + PARAMS[o.addr].path + (o.coarse ? ",coarse)" : ",fine)"); break;
        case 3: d += " clear"; break;
        case 4: d += " >rt"; break;
        default: d += " >nrt"; break;
      }
    }
    return d;
  }
};
const char *vf_property() { return "C20"; }
void vf_init() {}

// a controller: parameter number (low 7 bits + 10), MIDI channel and the NRPN flag, packed into the case's 'id' field as
// par + 256*channel_choice + 1024*nrpn (plain numbers below 256 are channel 1, no NRPN, as in older case files)
static int gen_controller(int nids) {
  int par = vf::pickn(nids) + 10;
  if (vf::chance(70)) return par;
  return par + 256 * vf::pickn(3) + 1024 * vf::pickn(2);
}
static const int CHANNELS[3] = {1, 2, 10};
Case vf_generate() {
  Case c;
  c.naddr = vf::pick<int>(2, 4);
  c.nids = vf::pick<int>(2, 6);
  int n = vf::sized<int>(1, 50);
  for (int i = 0; i < n; i++) {
    Op o;
    int k = vf::pickn(20);
    if (vf::chance(18)) {
      // a complete learn: map, deliver the watch, a controller event, deliver the request, deliver the binding,
      // then a few events of that controller (with random deliveries in between handled by the other ops)
      Op m; m.kind = 0; m.addr = vf::pickn(c.naddr); m.coarse = vf::chance(65);
      Op d1; d1.kind = 4; Op d2; d2.kind = 5;
      Op cc; cc.kind = 1; cc.id = gen_controller(c.nids); cc.val = vf::pick<int>(0, 127);
      c.ops.push_back(m); c.ops.push_back(d1); if (vf::coin()) c.ops.push_back(d1); c.ops.push_back(cc); c.ops.push_back(d2); c.ops.push_back(d1);
      int more = vf::pick<int>(1, 4);
      for (int j = 0; j < more; j++) { Op e = cc; e.val = vf::pick<int>(0, 127); c.ops.push_back(e); }
      continue;
    }
    o.addr = vf::pickn(c.naddr);
    o.coarse = vf::chance(70);
    o.id = gen_controller(c.nids);
    o.val = vf::pick<int>(0, 127);
    if (k < 3) o.kind = 0;
    else if (k < 9) o.kind = 1;
    else if (k < 10) o.kind = 2;
    else if (k < 11 && vf::chance(30)) o.kind = 3;
    else if (k < 16) o.kind = 4;
    else o.kind = 5;
    c.ops.push_back(o);
  }
  return c;
}

struct Bind { int coarse = -1, fine = -1; };
typedef std::map<int, std::pair<int, bool>> View;   // controller id -> (address, coarse)

std::string vf_run(const Case &c, vf::Ctx &ctx) {
  rtosc::MidiMapperRT rt;
  rtosc::MidiMappernRT nrt;
  nrt.base_ports = &App::ports;
  // every other case a second pair of mappers lives next to the checked one and is driven as well (nothing is shared)
  rtosc::MidiMapperRT rt2;
  rtosc::MidiMappernRT nrt2;
  nrt2.base_ports = &App::ports;
  nrt2.rt_cb = [](const char *) {};
  rt2.setFrontendCb([](const char *) {});
  rt2.setBackendCb([](const char *) {});
  const bool with_shadow = c.ops.size() % 2 == 0;
  if (with_shadow) ctx.count("class.second_mapper_pair_alongside");
  struct N2R { std::string msg; bool bind; View view; };
  std::deque<N2R> n2r;
  std::deque<int> r2n;
  std::vector<std::string> backend;
  // nRT-side model
  std::deque<std::pair<int, bool>> queue;
  std::map<int, Bind> binds;   // address -> ids
  bool dup_id = false;         // an id assigned twice by in-flight races: outcomes for it are not judged
  auto snapshot = [&]() { View v; for (auto &b : binds) { if (b.second.coarse >= 0) v[b.second.coarse] = {b.first, true}; if (b.second.fine >= 0) v[b.second.fine] = {b.first, false}; } return v; };
  std::map<int, int> lib_of, model_of;   // controller of the case <-> id the library uses for it
  std::vector<std::string> emitted_now;
  nrt.rt_cb = [&](const char *m) { emitted_now.push_back(std::string(m, rtosc_message_length(m, 1024))); };
  rt.setFrontendCb([&](const char *m) { if (!strcmp(m, "/midi-use-CC")) r2n.push_back(rtosc_argument(m, 0).i); });
  rt.setBackendCb([&](const char *m) { backend.push_back(std::string(m, rtosc_message_length(m, 1024))); });
  auto flush_emitted = [&]() {
    for (auto &m : emitted_now) { N2R e; e.msg = m; e.bind = m.compare(0, 21, "/midi-learn/midi-bind") == 0 && m[21] == 0; if (e.bind) e.view = snapshot(); n2r.push_back(e); }
    emitted_now.clear();
  };
  // RT-side model
  View view;
  int watch = 0;               // learn requests announced to the realtime side and not yet used
  std::deque<int> pend;        // controllers the realtime side has asked about; one entry is retired per delivered binding
  std::map<int, int> val7;   // per controller id: last 7-bit value seen by the RT side under the current view lineage
  int last_cc_id = -1, last_cc_val = -1; double last_out = 0; int last_addr = -1;
  size_t served = 0, cc_bound = 0, cc_unbound = 0, fine14 = 0;
  std::string D = " | " + c.describe();
  int rtid_base = 0;  // handleCC(par, val, chan=1): ID = par for chan 1
  (void)rtid_base;
  for (size_t oi = 0; oi < c.ops.size(); oi++) {
    const Op &o = c.ops[oi];
    std::string W = " at op " + std::to_string(oi) + D;
    bool keep_last = false;
    if (with_shadow) {
      // the other pair: its own learn requests (shifted addresses), its own controllers
      switch (o.kind) {
        case 0: nrt2.map(PARAMS[(o.addr + 1) % c.naddr].path, !o.coarse); break;
        case 2: nrt2.unMap(PARAMS[(o.addr + 1) % c.naddr].path, o.coarse); break;
        case 3: if (oi % 3 == 0) nrt2.clear(); break;
        case 4: break;
        case 5: nrt2.useFreeID(100 + (int)oi); break;   // a controller id it has never seen
        default: rt2.handleCC((o.id + 1) % 8, 127 - o.val); break;
      }
    }
    switch (o.kind) {
      case 0: {
        bool already = false;
        for (auto &q : queue) if (q.first == o.addr && q.second == o.coarse) already = true;
        nrt.map(PARAMS[o.addr].path, o.coarse);
        if (!already) {
          // map() first removes an existing binding of that kind
          auto it = binds.find(o.addr);
          if (it != binds.end()) { if (o.coarse) it->second.coarse = -1; else it->second.fine = -1; if (it->second.coarse < 0 && it->second.fine < 0) binds.erase(it); }
          queue.push_back({o.addr, o.coarse});
        }
        flush_emitted();
        break;
      }
      case 2: {
        nrt.unMap(PARAMS[o.addr].path, o.coarse);
        auto it = binds.find(o.addr);
        if (it != binds.end()) { if (o.coarse) it->second.coarse = -1; else it->second.fine = -1; if (it->second.coarse < 0 && it->second.fine < 0) binds.erase(it); }
        flush_emitted();
        break;
      }
      case 3: nrt.clear(); binds.clear(); queue.clear(); flush_emitted(); break;
      case 4: {
        if (n2r.empty()) break;
        N2R e = n2r.front(); n2r.pop_front();
        std::vector<char> b(e.msg.size() + 64, 0);
        memcpy(b.data(), e.msg.data(), e.msg.size());
        rtosc::RtData d;
        d.obj = &rt;
        rtosc::MidiMapperRT::ports.dispatch(b.data() + strlen("/midi-learn/"), d);
        if (!e.bind) watch++;
        if (e.bind && !pend.empty()) pend.pop_front();
        if (e.bind) {
          std::map<int, int> nv;
          for (auto &kv : e.view) if (view.count(kv.first) && val7.count(kv.first)) nv[kv.first] = val7[kv.first];
          view = e.view; val7 = nv;
        }
        break;
      }
      case 5: {
        if (r2n.empty()) break;
        int id = r2n.front(); r2n.pop_front();
        bool had_queue = !queue.empty();
        {
          bool assigned = false;
          for (auto &b : binds) if (b.second.coarse == id || b.second.fine == id) assigned = true;
          // known finding 'midi-id-assigned-twice': the realtime side's pending set gets out of step with the binds it
          // receives and asks again for a controller that the non-realtime side has already assigned
          if (assigned && had_queue && vf::known("midi-id-assigned-twice")) { vf::G().ctx.count("excluded.midi-id-assigned-twice"); break; }
        }
        nrt.useFreeID(id);
        if (had_queue) {
          auto q = queue.front(); queue.pop_front();
          for (auto &b : binds) if (b.second.coarse == id || b.second.fine == id) dup_id = true;   // race: id was assigned meanwhile
          Bind &b = binds[q.first];
          if (q.second) b.coarse = id; else b.fine = id;
          served++;
        }
        flush_emitted();
        break;
      }
      default: {
        backend.clear();
        size_t r2n_before = r2n.size();
        rt.handleCC(o.id % 256, o.val, (char)CHANNELS[(o.id / 256) % 4 % 3], (o.id / 1024) != 0);
        // the id under which the library talks about this controller is whatever it reported for it (two controllers
        // must never share one); a controller that was never reported cannot have been assigned
        const int lid = lib_of.count(o.id) ? lib_of[o.id] : -1000000 - o.id;
        auto it = view.find(lid);
        if (it == view.end()) {
          cc_unbound++;
          if (!backend.empty() && !dup_id) return "controller " + std::to_string(o.id) + " is not assigned (in the realtime side's current mapping) but produced a parameter message" + W;
          if (r2n.size() > r2n_before + 1) return "one controller event produced more than one midi-use-CC request" + W;
          // a not yet assigned controller is reported once (while a learn request is open), and not again while that
          // report is still unanswered
          bool asked = false;
          for (int p : pend) if (p == lid) asked = true;
          bool expect_req = !asked && watch > 0 && pend.size() < 32;
          bool got_req = r2n.size() == r2n_before + 1;
          if (got_req) {
            int rid = r2n.back();
            if (lib_of.count(o.id) && lib_of[o.id] != rid) return "controller " + std::to_string(o.id) + " is reported as " + std::to_string(rid) + ", earlier as " + std::to_string(lib_of[o.id]) + W;
            if (model_of.count(rid) && model_of[rid] != o.id) return "two different controllers (parameter/channel/NRPN " + std::to_string(model_of[rid]) + " and " + std::to_string(o.id) + ") are reported under the same id " + std::to_string(rid) + W;
            lib_of[o.id] = rid; model_of[rid] = o.id;
          }
          const int nlid = lib_of.count(o.id) ? lib_of[o.id] : lid;
          if (expect_req && !got_req) return "unassigned controller " + std::to_string(o.id) + " arrived while a learn request is open but no midi-use-CC was sent" + W;
          if (!expect_req && got_req) return std::string("controller ") + std::to_string(o.id) + (asked ? " was already reported and not yet answered" : " arrived with no learn request open") + ", yet midi-use-CC was sent again" + W;
          if (got_req) { watch--; pend.push_back(nlid); }
        } else {
          cc_bound++;
          if (dup_id) break;
          int addr = it->second.first;
          const P &p = PARAMS[addr];
          if (backend.size() != 1) return "assigned controller " + std::to_string(o.id) + " produced " + std::to_string(backend.size()) + " parameter messages, expected exactly one to " + p.path + W;
          refosc::Decoded d = refosc::decode((const unsigned char *)backend[0].data(), backend[0].size());
          if (d.st != refosc::OK) return "backend message malformed" + W;
          if (d.address != p.path) return "controller " + std::to_string(o.id) + " drives " + d.address + ", it was learned for " + p.path + W;
          if (d.tags != std::string(1, p.type)) return std::string("message for ") + p.path + " has type \"" + d.tags + "\"" + W;
          uint32_t u = (uint32_t)d.vals[0].u;
          double out;
          if (p.type == 'i') out = (double)(int32_t)u; else { float f; memcpy(&f, &u, 4); out = f; }
          if (!(out >= p.mn - 1e-6 * fabs(p.mn) && out <= p.mx + 1e-6 * fabs(p.mx))) return std::string("value ") + std::to_string(out) + " for " + p.path + " outside [" + std::to_string(p.mn) + "," + std::to_string(p.mx) + "]" + W;
          // 7/14-bit composition
          val7[lid] = o.val;
          int cid = -1, fid = -1;
          for (auto &kv : view) if (kv.second.first == addr) { if (kv.second.second) cid = kv.first; else fid = kv.first; }
          int x = ((cid >= 0 && val7.count(cid) ? val7[cid] : 0) << 7) | (fid >= 0 && val7.count(fid) ? val7[fid] : 0);
          double want = (p.type == 'i' && p.mn == 0 && p.mx == 127) ? (double)(0x7f & (x >> 7)) : x / 16384.0 * (p.mx - p.mn) + p.mn;
          if (p.type == 'i' && !(p.mn == 0 && p.mx == 127)) want = (double)(int)want;
          double tol = p.type == 'i' ? 1.0 : 1e-5 * (fabs(p.mx) + fabs(p.mn));
          if (fabs(out - want) > tol) return std::string("value ") + std::to_string(out) + " for " + p.path + ", expected " + std::to_string(want) + " from coarse/fine " + std::to_string(x >> 7) + "/" + std::to_string(x & 127) + W;
          if (cid >= 0 && fid >= 0) fine14++;
          // monotone in v: consecutive events of the same controller
          if (last_cc_id == o.id && last_addr == addr) {
            if (o.val >= last_cc_val && out < last_out - tol) return std::string("value for ") + p.path + " decreases although the controller value increases" + W;
            if (o.val <= last_cc_val && out > last_out + tol) return std::string("value for ") + p.path + " increases although the controller value decreases" + W;
          }
          last_cc_id = o.id; last_cc_val = o.val; last_out = out; last_addr = addr; keep_last = true;
        }
        break;
      }
    }
    if (!keep_last) last_cc_id = -1;
    // nRT-side bindings agree with the model (learn order: oldest queued address gets the controller)
    if (!dup_id)
      for (int a = 0; a < c.naddr; a++) {
        int mc = binds.count(a) ? binds[a].coarse : -1, mf = binds.count(a) ? binds[a].fine : -1;
        int gc = nrt.getCoarse(PARAMS[a].path), gf = nrt.getFine(PARAMS[a].path);
        if (gc != mc) return std::string("non-realtime side has coarse controller ") + std::to_string(gc) + " for " + PARAMS[a].path + ", the learn order gives " + std::to_string(mc) + W;
        if (gf != mf) return std::string("non-realtime side has fine controller ") + std::to_string(gf) + " for " + PARAMS[a].path + ", the learn order gives " + std::to_string(mf) + W;
      }
  }
  ctx.count("cc.assigned", cc_bound);
  ctx.count("cc.unassigned", cc_unbound);
  ctx.count("learns_served", served);
  if (fine14) ctx.count("class.coarse_plus_fine");
  if (dup_id) ctx.count("class.in_flight_race_same_id(not judged)");
  if (served >= 1 && cc_bound >= 1) ctx.nontriv(vf::fnv(c.describe()));
  return "";
}
std::string vf_enumerate(vf::Ctx &, int, int, long) { return ""; }
VF_MAIN(Case)
