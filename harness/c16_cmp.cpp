// C16 - argument-value comparison is a coherent order, blind to range compression.
#include "common/avgen.hpp"
#include "common/refosc.hpp"
#include <rtosc/arg-val-cmp.h>
#include <rtosc/arg-val-itr.h>
#include <rtosc/arg-val.h>

using avg::V;
using avg::Seg;

struct Case {
  std::vector<V> a, b, c;
  Seg sa, sb, sc;       // segmentations (compressed representations)
  bool triple = false;
  template <class A> void io(A &x) { x(a)(b)(c)(sa)(sb)(sc)(triple); }
  std::string describe() const {
    return "A={" + avg::show(a, sa) + "} B={" + avg::show(b, sb) + "}" + (triple ? " C={" + avg::show(c, sc) + "}" : "");
  }
};
const char *vf_property() { return "C16"; }
void vf_init() {}

static V gen_scalar(char t) {
  V v;
  v.t = t;
  switch (t) {
    case 'i': case 'c': v.i = vf::oneof<int>({0, 1, 2, 3, -1, 5, 7, 100, -100, 2147483647, -2147483647 - 1}); if (t == 'c') v.i = vf::oneof<int>({0, 'a', 'b', 'c', 'z', 127}); break;
    case 'h': v.i = vf::oneof<int64_t>({0, 1, 2, 3, -1, 5, INT64_MAX, INT64_MIN, 1ll << 40}); break;
    case 'r': v.i = (int32_t)vf::oneof<uint32_t>({0u, 1u, 0x7fffffffu, 0x80000000u, 0xff0000ffu}); break;
    case 'm': v.i = (int32_t)vf::oneof<uint32_t>({0u, 0x00000001u, 0x01000000u, 0x90407f00u, 0xff000000u}); break;
    case 't': v.i = (int64_t)vf::oneof<uint64_t>({1ull, 0ull, 2ull, 0x100000000ull, 0x8000000000000000ull, ~0ull}); break;
    case 'f': case 'd': v.d = vf::chance(80) ? vf::oneof<double>({0.0, -0.0, 0.25, 0.5, 1.0, 1.5, 2.0, -1.0, -0.25, 1e10, -1e10, 3.0, (double)INFINITY, -(double)INFINITY, (double)INFINITY}) : (double)(float)(vf::pick<int>(-3, 6) / 10.0f); break;   // also tenths (0.1f, 0.2f: not exact) and the infinities (inf - inf is NaN: seed C16-11)
    case 's': case 'S': v.s = vf::oneof<std::string>({"", "a", "ab", "abc", "b", "abd", "A", "a b"}); break;
    case 'b': v.s = vf::oneof<std::string>({"", std::string("\0", 1), "a", std::string("a\0", 2), "ab", std::string("ab\0\0", 4), "b", "\xff", std::string("\xff\0", 2)}); break;
    default: break;
  }
  return v;
}
static const char SCAL[] = "ichfdsSbtrmTFNI";
static char gen_type() { return vf::chance(55) ? "ihfsbt"[vf::pickn(6)] : SCAL[vf::pickn(15)]; }

static void gen_items(std::vector<V> &out, int maxn, bool allow_arrays, const char *force_type) {
  int n = vf::sized<int>(0, maxn);
  while ((int)out.size() < n) {
    char t = force_type ? force_type[vf::pickn((int)strlen(force_type))] : gen_type();
    int k = vf::pickn(10);
    if (allow_arrays && k == 0) {
      V a;
      a.t = 'a';
      a.at = vf::chance(30) ? 'T' : "ihfsdc"[vf::pickn(6)];
      const char *ft = a.at == 'T' ? "TF" : nullptr;
      char one[2] = {a.at, 0};
      gen_items(a.el, 4, false, ft ? ft : one);
      if (a.at == 'T' && !a.el.empty()) a.at = a.el[0].t;   // as the scanner does: type of the first element
      a.seg = avg::gen_seg(a.el, 50);
      out.push_back(a);
      if (vf::chance(35)) { int r = vf::pick<int>(1, 3); for (int i = 0; i < r && (int)out.size() < n; i++) out.push_back(a); }   // a run of equal arrays
    } else if (k <= 3 && avg::runnable_const(t)) {  // constant run
      V v = gen_scalar(t);
      int r = vf::pick<int>(2, 4);
      for (int i = 0; i < r && (int)out.size() < n; i++) out.push_back(v);
    } else if (k <= 5 && avg::runnable_arith(t)) {  // arithmetic run with an exactly representable delta
      V s = gen_scalar(t), d;
      d.t = t;
      if (t == 'f' || t == 'd') { d.d = vf::oneof<double>({0.25, 0.5, 1.0, -0.5, 2.0}); if (fabs(s.d) > 1e6) s.d = 1.0; }
      else { d.i = vf::oneof<int>({1, 2, -1, 3, -3}); if (s.i > 1000000 || s.i < -1000000) s.i = 5; }
      int r = vf::pick<int>(2, 5);
      for (int i = 0; i < r && (int)out.size() < n; i++) out.push_back(avg::nth(s, d, i));
    } else out.push_back(gen_scalar(t));
  }
}

static void mutate(std::vector<V> &l) {
  int k = vf::pickn(6);
  if (l.empty()) k = 3;
  switch (k) {
    case 0: { V &v = l[(size_t)vf::pickn((int)l.size())]; if (v.t != 'a') v = gen_scalar(v.t); else if (!v.el.empty()) { v.el.pop_back(); v.seg.clear(); } break; }
    case 1: l.pop_back(); break;
    case 2: l.erase(l.begin()); break;
    case 3: l.push_back(gen_scalar(gen_type())); break;
    case 4: { V &v = l[(size_t)vf::pickn((int)l.size())]; if (v.t == 'b' || v.t == 's') v.s += (v.t == 'b' && vf::coin()) ? std::string("\0", 1) : "a"; else if (v.t == 'a') { v.at = (v.el.empty() && vf::coin()) ? 'h' : v.at; } else v = gen_scalar(gen_type()); break; }
    default: break;
  }
}

Case vf_generate() {
  Case c;
  gen_items(c.a, 6, true, nullptr);
  if (vf::chance(70)) { c.b = c.a; mutate(c.b); if (vf::chance(30)) mutate(c.b); } else gen_items(c.b, 6, true, nullptr);
  c.triple = vf::chance(35);
  if (c.triple) { if (vf::chance(70)) { c.c = vf::coin() ? c.a : c.b; mutate(c.c); } else gen_items(c.c, 6, true, nullptr); }
  for (auto *l : {&c.a, &c.b, &c.c}) for (auto &v : *l) if (v.t == 'a') { v.seg = avg::gen_seg(v.el, 50); }
  c.sa = avg::gen_seg(c.a, 60);
  c.sb = avg::gen_seg(c.b, 60);
  c.sc = avg::gen_seg(c.c, 60);
  return c;
}

static int sgn(int x) { return (x > 0) - (x < 0); }

// own specification of the order between two values of the same scalar type (0 if not specified)
static bool spec_order(const V &a, const V &b, int &out) {
  if (a.t != b.t) return false;
  switch (a.t) {
    case 'i': case 'c': case 'h': out = (a.i > b.i) - (a.i < b.i); return true;
    case 'f': { float x = (float)a.d, y = (float)b.d; out = (x > y) - (x < y); return true; }
    case 'd': out = (a.d > b.d) - (a.d < b.d); return true;
    case 's': case 'S': out = sgn(a.s.compare(b.s)); { // lexicographic by unsigned bytes == strcmp
      out = sgn(strcmp(a.s.c_str(), b.s.c_str())); } return true;
    case 'b': {
      size_t m = std::min(a.s.size(), b.s.size());
      int r = memcmp(a.s.data(), b.s.data(), m);
      if (r) out = sgn(r);
      else out = (a.s.size() > b.s.size()) - (a.s.size() < b.s.size());  // proper prefix first
      return true;
    }
    case 't': {
      uint64_t x = (uint64_t)a.i, y = (uint64_t)b.i;
      if (x == 1 || y == 1) out = (x == 1 && y == 1) ? 0 : (x == 1 ? -1 : 1);
      else out = (x > y) - (x < y);
      return true;
    }
  }
  return false;
}

struct Built {
  std::vector<rtosc_arg_val_t> plain, comp;
};
static Built build(const std::vector<V> &l, const Seg &s) {
  Built b;
  // plain: arrays are expanded as well (their own segmentation dropped)
  avg::build(b.plain, l, avg::plain_seg(l.size()), true);
  avg::build(b.comp, l, s);
  return b;
}

static bool no_arrays(const std::vector<V> &l) { for (auto &v : l) if (v.t == 'a') return false; return true; }

std::string vf_run(const Case &c, vf::Ctx &ctx) {
  std::vector<const std::vector<V> *> L = {&c.a, &c.b};
  std::vector<const Seg *> S = {&c.sa, &c.sb};
  if (c.triple) { L.push_back(&c.c); S.push_back(&c.sc); }
  std::vector<Built> B;
  for (size_t i = 0; i < L.size(); i++) B.push_back(build(*L[i], *S[i]));
  // every other case: where two lists hold blobs at the same position and one is a leading part of the other (or they are
  // equal), both become views on one buffer - blobs cut out of a larger block are compared by content and length all the same
  if ((c.a.size() + c.b.size()) % 2 == 0) {
    bool shared = false;
    for (size_t i = 0; i < B.size(); i++)
      for (size_t j = 0; j < B.size(); j++) {
        if (i == j) continue;
        for (size_t k = 0; k < B[i].plain.size() && k < B[j].plain.size(); k++) {
          rtosc_arg_val_t &x = B[i].plain[k], &y = B[j].plain[k];
          if (x.type != 'b' || y.type != 'b' || x.val.b.len > y.val.b.len || x.val.b.data == y.val.b.data) continue;
          if (x.val.b.len && memcmp(x.val.b.data, y.val.b.data, (size_t)x.val.b.len)) continue;
          x.val.b.data = y.val.b.data;
          shared = true;
        }
      }
    if (shared) ctx.count("class.blobs_sharing_a_buffer");
  }
  const char *N[3] = {"A", "B", "C"};
  auto CMP = [](const std::vector<rtosc_arg_val_t> &x, const std::vector<rtosc_arg_val_t> &y) { return rtosc_arg_vals_cmp(x.data(), y.data(), x.size(), y.size(), nullptr); };
  auto EQ = [](const std::vector<rtosc_arg_val_t> &x, const std::vector<rtosc_arg_val_t> &y) { return rtosc_arg_vals_eq(x.data(), y.data(), x.size(), y.size(), nullptr); };

  int cm[3][3];
  for (size_t i = 0; i < L.size(); i++) {
    // reflexivity
    if (CMP(B[i].plain, B[i].plain) != 0) return std::string("cmp(") + N[i] + "," + N[i] + ") != 0";
    if (!EQ(B[i].plain, B[i].plain)) return std::string("eq(") + N[i] + "," + N[i] + ") is false";
    // compression blindness against itself
    if (!EQ(B[i].plain, B[i].comp) || !EQ(B[i].comp, B[i].plain)) return std::string("eq(") + N[i] + ", compressed " + N[i] + ") is false";
    if (CMP(B[i].plain, B[i].comp) != 0 || CMP(B[i].comp, B[i].plain) != 0) return std::string("cmp(") + N[i] + ", compressed " + N[i] + ") != 0";
    // iteration over the compressed list yields the expanded list
    {
      rtosc_arg_val_itr it;
      rtosc_arg_val_itr_init(&it, B[i].comp.data());
      size_t k = 0;
      const std::vector<V> &l = *L[i];
      while (it.i < B[i].comp.size()) {
        rtosc_arg_val_t tmp;
        const rtosc_arg_val_t *cur = rtosc_arg_val_itr_get(&it, &tmp);
        if (k >= l.size()) return std::string("iteration over compressed ") + N[i] + " yields more than " + std::to_string(l.size()) + " values";
        std::vector<rtosc_arg_val_t> one;
        avg::put(one, l[k], true);
        if (cur->type != l[k].t) return std::string("iteration over compressed ") + N[i] + ": element " + std::to_string(k) + " has type '" + cur->type + "', expected '" + l[k].t + "'";
        if (l[k].t != 'a' && !rtosc_arg_vals_eq_single(cur, &one[0], nullptr)) return std::string("iteration over compressed ") + N[i] + ": element " + std::to_string(k) + " differs from the expanded list";
        if (l[k].t != 'a' && strchr("icrfmhtd", l[k].t) && memcmp(&cur->val, &one[0].val, strchr("icrfm", l[k].t) ? 4 : 8)) return std::string("iteration over compressed ") + N[i] + ": element " + std::to_string(k) + " is not bit-identical to the expanded value";
        rtosc_arg_val_itr_next(&it);
        k++;
        if (k > 200) return "iteration does not terminate";
      }
      if (k != l.size()) return std::string("iteration over compressed ") + N[i] + " yields " + std::to_string(k) + " values, expanded list has " + std::to_string(l.size());
    }
    // OSC message built from compressed == from expanded (arrays are not representable in messages)
    if (no_arrays(*L[i])) {
      char m1[1024], m2[1024];
      size_t r1 = rtosc_avmessage(m1, sizeof m1, "/x", B[i].plain.size(), B[i].plain.data());
      size_t r2 = rtosc_avmessage(m2, sizeof m2, "/x", B[i].comp.size(), B[i].comp.data());
      if (r1 != r2 || memcmp(m1, m2, r1)) return std::string("rtosc_avmessage(compressed ") + N[i] + ") differs from rtosc_avmessage(expanded)";
    }
  }
  // with a tolerance for floats (non-default options): the order is no order any more, but "compares as 0" and "is equal"
  // still have to be the same statement, in every mix of representations
  for (double tol : {0.1, 0.001, 0.5}) {
    rtosc_cmp_options opt;
    opt.float_tolerance = tol;
    for (size_t i = 0; i < L.size(); i++)
      for (size_t j = 0; j < L.size(); j++)
        for (int rep = 0; rep < 4; rep++) {
          const std::vector<rtosc_arg_val_t> &x = (rep & 1) ? B[i].comp : B[i].plain, &y = (rep & 2) ? B[j].comp : B[j].plain;
          int r = rtosc_arg_vals_cmp(x.data(), y.data(), x.size(), y.size(), &opt);
          int e = rtosc_arg_vals_eq(x.data(), y.data(), x.size(), y.size(), &opt);
          if ((r == 0) != (e != 0)) return std::string("with float tolerance ") + std::to_string(tol) + ": cmp(" + N[i] + "," + N[j] + ")=" + std::to_string(r) + " but eq=" + std::to_string(e);
        }
  }
  ctx.count("checked.with_float_tolerance");
  for (size_t i = 0; i < L.size(); i++)
    for (size_t j = 0; j < L.size(); j++) {
      int r = CMP(B[i].plain, B[j].plain);
      cm[i][j] = sgn(r);
      int e = EQ(B[i].plain, B[j].plain);
      std::string w = std::string("(") + N[i] + "," + N[j] + ")";
      if ((r == 0) != (e != 0)) return "cmp" + w + "=" + std::to_string(r) + " but eq" + w + "=" + std::to_string(e);
      bool spec_eq = avg::list_eq(*L[i], *L[j]);
      if ((e != 0) != spec_eq) return "eq" + w + "=" + std::to_string(e) + " but the lists are " + (spec_eq ? "equal" : "different");
      // compression blindness across the pair: any mix of representations gives the same answers
      int r2 = CMP(B[i].comp, B[j].plain), r3 = CMP(B[i].plain, B[j].comp), r4 = CMP(B[i].comp, B[j].comp);
      if (sgn(r2) != sgn(r) || sgn(r3) != sgn(r) || sgn(r4) != sgn(r)) return "cmp" + w + " changes sign when a side is compressed: plain " + std::to_string(r) + ", c/p " + std::to_string(r2) + ", p/c " + std::to_string(r3) + ", c/c " + std::to_string(r4);
      int e2 = EQ(B[i].comp, B[j].plain), e3 = EQ(B[i].plain, B[j].comp), e4 = EQ(B[i].comp, B[j].comp);
      if ((e2 != 0) != (e != 0) || (e3 != 0) != (e != 0) || (e4 != 0) != (e != 0)) return "eq" + w + " changes when a side is compressed";
      // order specification at the first differing position, same length lists differing in one same-type scalar
      const std::vector<V> &x = *L[i], &y = *L[j];
      size_t k = 0;
      while (k < x.size() && k < y.size() && avg::v_eq(x[k], y[k])) k++;
      if (k < x.size() && k < y.size()) {
        int so;
        if (spec_order(x[k], y[k], so) && so != 0 && sgn(r) != so)
          return "cmp" + w + "=" + std::to_string(r) + " but first differing elements " + avg::show(x[k]) + " vs " + avg::show(y[k]) + " order as " + std::to_string(so);
      }
    }
  for (size_t i = 0; i < L.size(); i++)
    for (size_t j = 0; j < L.size(); j++)
      if (cm[i][j] != -cm[j][i]) return std::string("antisymmetry: sgn cmp(") + N[i] + "," + N[j] + ")=" + std::to_string(cm[i][j]) + ", sgn cmp(" + N[j] + "," + N[i] + ")=" + std::to_string(cm[j][i]);
  if (c.triple)
    for (int i = 0; i < 3; i++) for (int j = 0; j < 3; j++) for (int k = 0; k < 3; k++)
      if (cm[i][j] <= 0 && cm[j][k] <= 0 && cm[i][k] > 0) return std::string("transitivity: ") + N[i] + "<=" + N[j] + "<=" + N[k] + " but cmp(" + N[i] + "," + N[k] + ")>0";

  // classification
  bool comp = avg::has_compression(c.sa) || avg::has_compression(c.sb);
  size_t diffs = 0;
  for (size_t k = 0; k < std::min(c.a.size(), c.b.size()); k++) if (!avg::v_eq(c.a[k], c.b[k])) diffs++;
  bool prefix = diffs == 0 && c.a.size() != c.b.size();
  bool onediff = diffs == 1 && c.a.size() == c.b.size();
  if (comp) ctx.count("class.compressed_run");
  if (prefix) ctx.count("class.prefix");
  if (onediff) ctx.count("class.one_position_differs");
  if (c.triple) ctx.count("class.triple");
  bool arr = false;
  for (auto &v : c.a) if (v.t == 'a') arr = true;
  if (arr) ctx.count("class.has_array");
  if (comp || prefix || onediff) ctx.nontriv(vf::fnv(c.describe()));
  return "";
}
std::string vf_enumerate(vf::Ctx &, int, int, long) { return ""; }
VF_MAIN(Case)
