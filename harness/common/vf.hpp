// Shared harness runtime: case archive (text), stats, rapidcheck glue, entry modes.
// Every harness defines
//   struct Case { ...; template<class A> void io(A&a); std::string describe() const; };
//   Case vf_generate();                       // draws from rapidcheck (*gen) only
//   std::string vf_run(const Case&, Ctx&);    // "" = held, otherwise failure text
//   const char *vf_property();                // "C01"
// optionally  void vf_enumerate(Ctx&, int worker, int nworkers, long budget)
#pragma once
#include <rapidcheck.h>
#include <cstdint>
#include <cstdio>
#include <cstdlib>
#include <cstring>
#include <string>
#include <vector>
#include <map>
#include <set>
#include <unordered_set>
#include <sstream>
#include <fstream>
#include <functional>
#include <csignal>
#include <unistd.h>
#include <fcntl.h>
#include <cinttypes>
#include <cmath>

namespace vf {

// ------------------------------------------------------------------ hashing
inline uint64_t fnv(const void *p, size_t n, uint64_t h = 1469598103934665603ull) {
  const unsigned char *c = (const unsigned char *)p;
  for (size_t i = 0; i < n; i++) { h ^= c[i]; h *= 1099511628211ull; }
  return h;
}
inline uint64_t fnv(const std::string &s, uint64_t h = 1469598103934665603ull) { return fnv(s.data(), s.size(), h); }
inline uint64_t mix(uint64_t h, uint64_t v) { return fnv(&v, sizeof v, h); }

// ------------------------------------------------------------------ archive
inline std::string hexenc(const std::string &s) {
  static const char *d = "0123456789abcdef";
  std::string o;
  if (s.empty()) return "-";
  for (unsigned char c : s) { o += d[c >> 4]; o += d[c & 15]; }
  return o;
}
inline std::string hexdec(const std::string &s) {
  std::string o;
  if (s == "-") return o;
  auto v = [](char c) { return c <= '9' ? c - '0' : c - 'a' + 10; };
  for (size_t i = 0; i + 1 < s.size(); i += 2) o += (char)(v(s[i]) * 16 + v(s[i + 1]));
  return o;
}
// printable rendering for descriptions
inline std::string esc(const std::string &s) {
  std::string o;
  char b[8];
  for (unsigned char c : s) {
    if (c == '\\') o += "\\\\";
    else if (c == '"') o += "\\\"";
    else if (c >= 32 && c < 127) o += (char)c;
    else { snprintf(b, sizeof b, "\\x%02x", c); o += b; }
  }
  return o;
}

struct Writer {
  std::ostringstream os;
  static const bool reading = false;
  Writer &operator()(int &v) { os << v << ' '; return *this; }
  Writer &operator()(unsigned &v) { os << v << ' '; return *this; }
  Writer &operator()(bool &v) { os << (v ? 1 : 0) << ' '; return *this; }
  Writer &operator()(char &v) { os << (int)v << ' '; return *this; }
  Writer &operator()(unsigned char &v) { os << (int)v << ' '; return *this; }
  Writer &operator()(int64_t &v) { os << v << ' '; return *this; }
  Writer &operator()(uint64_t &v) { os << v << ' '; return *this; }
  Writer &operator()(float &v) { uint32_t u; memcpy(&u, &v, 4); os << "f" << u << ' '; return *this; }
  Writer &operator()(double &v) { uint64_t u; memcpy(&u, &v, 8); os << "d" << u << ' '; return *this; }
  Writer &operator()(std::string &v) { os << 's' << hexenc(v) << ' '; return *this; }
  template <class T> Writer &operator()(std::vector<T> &v) {
    os << "[" << v.size() << ' ';
    for (auto &e : v) (*this)(e);
    os << "] ";
    return *this;
  }
  template <class T> auto operator()(T &v) -> decltype(v.io(*this), *this) { v.io(*this); return *this; }
  void nl() { os << "\n"; }
  bool more() { return true; }
};
struct Reader {
  std::istringstream is;
  static const bool reading = true;
  bool fail = false;
  explicit Reader(const std::string &s) {
    // strip comment lines
    std::string o; std::istringstream in(s); std::string l;
    while (std::getline(in, l)) { if (!l.empty() && l[0] == '#') continue; o += l; o += '\n'; }
    is.str(o);
  }
  std::string tok() { std::string t; if (!(is >> t)) fail = true; return t; }
  Reader &operator()(int &v) { v = (int)strtoll(tok().c_str(), 0, 10); return *this; }
  Reader &operator()(unsigned &v) { v = (unsigned)strtoull(tok().c_str(), 0, 10); return *this; }
  Reader &operator()(bool &v) { v = strtoll(tok().c_str(), 0, 10) != 0; return *this; }
  Reader &operator()(char &v) { v = (char)strtoll(tok().c_str(), 0, 10); return *this; }
  Reader &operator()(unsigned char &v) { v = (unsigned char)strtoll(tok().c_str(), 0, 10); return *this; }
  Reader &operator()(int64_t &v) { v = strtoll(tok().c_str(), 0, 10); return *this; }
  Reader &operator()(uint64_t &v) { v = strtoull(tok().c_str(), 0, 10); return *this; }
  Reader &operator()(float &v) { std::string t = tok(); uint32_t u = (uint32_t)strtoull(t.c_str() + 1, 0, 10); memcpy(&v, &u, 4); return *this; }
  Reader &operator()(double &v) { std::string t = tok(); uint64_t u = strtoull(t.c_str() + 1, 0, 10); memcpy(&v, &u, 8); return *this; }
  Reader &operator()(std::string &v) { std::string t = tok(); v = t.empty() ? "" : hexdec(t.substr(1)); return *this; }
  template <class T> Reader &operator()(std::vector<T> &v) {
    std::string t = tok();
    size_t n = t.size() > 1 ? strtoull(t.c_str() + 1, 0, 10) : 0;
    v.clear();
    if (n > 10000000) { fail = true; return *this; }
    v.resize(n);
    for (auto &e : v) (*this)(e);
    tok();
    return *this;
  }
  template <class T> auto operator()(T &v) -> decltype(v.io(*this), *this) { v.io(*this); return *this; }
  void nl() {}
  bool more() { is >> std::ws; return !fail && is.peek() != EOF; }   // optional trailing fields of a record
};

template <class C> std::string serialize(const C &c, const char *prop) {
  Writer w;
  C &m = const_cast<C &>(c);
  m.io(w);
  std::string d = m.describe();
  std::string out = std::string("# property ") + prop + "\n";
  std::istringstream in(d); std::string l;
  while (std::getline(in, l)) out += "# " + l + "\n";
  out += w.os.str() + "\n";
  return out;
}

// ------------------------------------------------------------------ stats / ctx
struct Ctx {
  std::map<std::string, uint64_t> counters;
  std::unordered_set<uint64_t> nontrivial;   // capped
  uint64_t nontrivial_hits = 0;              // non-distinct count
  uint64_t evaluations = 0;
  std::vector<std::string> samples;
  size_t sample_cap = 8;
  size_t hash_cap = 400000;
  bool hash_overflow = false;
  // per-case scratch
  bool cur_nontrivial = false;
  uint64_t cur_hash = 0;
  void count(const std::string &k, uint64_t n = 1) { counters[k] += n; }
  void nontriv(uint64_t h) { cur_nontrivial = true; cur_hash = h; }
  void begin_case() { cur_nontrivial = false; cur_hash = 0; }
  void end_case(const std::function<std::string()> &describe) {
    evaluations++;
    if (cur_nontrivial) {
      nontrivial_hits++;
      bool fresh = false;
      if (nontrivial.size() < hash_cap) fresh = nontrivial.insert(cur_hash).second;
      else hash_overflow = true;
      if (fresh && samples.size() < sample_cap && (nontrivial.size() % 97 == 1 || samples.size() < 2)) samples.push_back(describe());
    }
  }
  // direct recording for enumerators (no Case object)
  void record(bool nontrivial_, uint64_t h, const std::function<std::string()> &describe) {
    begin_case();
    if (nontrivial_) nontriv(h);
    end_case(describe);
  }
};

inline std::string jstr(const std::string &s) {
  std::string o = "\"";
  char b[8];
  for (unsigned char c : s) {
    if (c == '"') o += "\\\"";
    else if (c == '\\') o += "\\\\";
    else if (c == '\n') o += "\\n";
    else if (c < 32 || c >= 127) { snprintf(b, sizeof b, "\\u%04x", c); o += b; }
    else o += (char)c;
  }
  return o + "\"";
}

struct Globals {
  std::string outdir = ".";
  std::string current_case;     // serialized, for the death callback
  std::string mode = "gen";
  int worker = 0, nworkers = 1;
  Ctx ctx;
  std::set<std::string> known;  // armed known-finding classes
  bool stats_written = false;
  std::string last_failure_msg;
  int failures_seen = 0;
};
inline Globals &G() { static Globals g; return g; }
inline bool known(const char *cls) { return G().known.count(cls) != 0; }

inline void write_file(const std::string &path, const std::string &data) {
  int fd = open(path.c_str(), O_WRONLY | O_CREAT | O_TRUNC, 0644);
  if (fd < 0) return;
  size_t off = 0;
  while (off < data.size()) { ssize_t w = write(fd, data.data() + off, data.size() - off); if (w <= 0) break; off += (size_t)w; }
  close(fd);
}

inline void write_stats(const char *status) {
  Globals &g = G();
  std::ostringstream o;
  o << "{\n \"status\": " << jstr(status) << ",\n \"mode\": " << jstr(g.mode) << ",\n \"worker\": " << g.worker
    << ",\n \"evaluations\": " << g.ctx.evaluations << ",\n \"nontrivial_hits\": " << g.ctx.nontrivial_hits
    << ",\n \"distinct_nontrivial\": " << g.ctx.nontrivial.size() << ",\n \"hash_overflow\": " << (g.ctx.hash_overflow ? "true" : "false")
    << ",\n \"failures_seen\": " << g.failures_seen << ",\n \"last_failure\": " << jstr(g.last_failure_msg) << ",\n \"counters\": {";
  bool first = true;
  for (auto &kv : g.ctx.counters) { o << (first ? "" : ",") << "\n  " << jstr(kv.first) << ": " << kv.second; first = false; }
  o << "\n },\n \"samples\": [";
  first = true;
  for (auto &s : g.ctx.samples) { o << (first ? "" : ",") << "\n  " << jstr(s); first = false; }
  o << "\n ]\n}\n";
  char name[64]; snprintf(name, sizeof name, "/stats-%s-%d.json", g.mode.c_str(), g.worker);
  write_file(g.outdir + name, o.str());
  // hashes
  std::string hb;
  hb.reserve(g.ctx.nontrivial.size() * 8);
  for (uint64_t h : g.ctx.nontrivial) hb.append((const char *)&h, 8);
  snprintf(name, sizeof name, "/hashes-%s-%d.bin", g.mode.c_str(), g.worker);
  write_file(g.outdir + name, hb);
  g.stats_written = true;
}

inline void death_dump() {
  Globals &g = G();
  static bool once = false;
  if (once) return;
  once = true;
  if (!g.current_case.empty()) {
    char name[64]; snprintf(name, sizeof name, "/crash-%s-%d.case", g.mode.c_str(), g.worker);
    write_file(g.outdir + name, g.current_case);
  }
  write_stats("crashed");
}
extern "C" void __sanitizer_set_death_callback(void (*)(void)) __attribute__((weak));
inline void on_signal(int sig) {
  death_dump();
  signal(sig, SIG_DFL);
  raise(sig);
}
inline void install_death_hooks() {
  if (__sanitizer_set_death_callback) __sanitizer_set_death_callback(death_dump);
  // alternate stack so that a stack overflow in the code under test still leaves a replay file
  static char altstack[1 << 16];
  stack_t ss;
  ss.ss_sp = altstack; ss.ss_size = sizeof altstack; ss.ss_flags = 0;
  sigaltstack(&ss, nullptr);
  struct sigaction sa;
  memset(&sa, 0, sizeof sa);
  sa.sa_handler = on_signal;
  sa.sa_flags = SA_ONSTACK;
  sigaction(SIGSEGV, &sa, nullptr);
  signal(SIGABRT, on_signal);
  signal(SIGALRM, [](int) {   // per-case watchdog: a single case that runs for 60 s does not terminate
    static const char m[] = "VF-WATCHDOG: case did not finish within 60 s\n";
    ssize_t r = write(2, m, sizeof m - 1); (void)r;
    death_dump();
    _exit(88);
  });
  signal(SIGBUS, on_signal);
  signal(SIGFPE, on_signal);
  signal(SIGILL, on_signal);
}

// ------------------------------------------------------------------ rapidcheck helpers
// uniform in [lo,hi], independent of the size parameter (choices), shrinks towards lo
template <class T> inline T pick(T lo, T hi) { return *rc::gen::resize(rc::kNominalSize, rc::gen::inRange<T>(lo, (T)(hi + 1))); }
inline int pickn(int n) { return pick<int>(0, n - 1); }
inline bool coin() { return pick<int>(0, 1) != 0; }
inline bool chance(int pct) { return pick<int>(0, 99) < pct; }
// size-scaled in [lo,hi]
template <class T> inline T sized(T lo, T hi) { return *rc::gen::inRange<T>(lo, (T)(hi + 1)); }
inline int cursize() { return *rc::gen::withSize([](int s) { return rc::gen::just(s); }); }
inline uint64_t bits64() { return *rc::gen::resize(rc::kNominalSize, rc::gen::arbitrary<uint64_t>()); }
inline uint32_t bits32() { return *rc::gen::resize(rc::kNominalSize, rc::gen::arbitrary<uint32_t>()); }
template <class T> inline const T &oneof(const std::vector<T> &v) { return v[(size_t)pickn((int)v.size())]; }
inline std::string strover(const std::string &alphabet, int lo, int hi) {
  int n = sized<int>(lo, hi);
  std::string s;
  for (int i = 0; i < n; i++) s += alphabet[(size_t)pickn((int)alphabet.size())];
  return s;
}

}  // namespace vf

// ------------------------------------------------------------------ entry point template
#define VF_MAIN(CaseT)                                                                                   \
  int main(int argc, char **argv) {                                                                      \
    using namespace vf;                                                                                  \
    Globals &g = G();                                                                                    \
    std::string casefile;                                                                                \
    long budget = 0;                                                                                     \
    for (int i = 1; i < argc; i++) {                                                                     \
      std::string a = argv[i];                                                                           \
      if (a == "--gen") g.mode = "gen";                                                                  \
      else if (a == "--enum") g.mode = "enum";                                                           \
      else if (a == "--case" && i + 1 < argc) { g.mode = "case"; casefile = argv[++i]; }                 \
      else if (a == "--out" && i + 1 < argc) g.outdir = argv[++i];                                       \
      else if (a == "--worker" && i + 1 < argc) g.worker = atoi(argv[++i]);                              \
      else if (a == "--nworkers" && i + 1 < argc) g.nworkers = atoi(argv[++i]);                          \
      else if (a == "--budget" && i + 1 < argc) budget = atol(argv[++i]);                                \
    }                                                                                                    \
    if (const char *k = getenv("VERIF_KNOWN")) {                                                         \
      std::string s = k, t;                                                                              \
      std::istringstream in(s);                                                                          \
      while (std::getline(in, t, ',')) if (!t.empty()) g.known.insert(t);                                \
    }                                                                                                    \
    install_death_hooks();                                                                               \
    vf_init();                                                                                           \
    if (g.mode == "case") {                                                                              \
      std::ifstream f(casefile);                                                                         \
      std::stringstream ss; ss << f.rdbuf();                                                             \
      Reader r(ss.str());                                                                                \
      CaseT c; c.io(r);                                                                                  \
      if (r.fail) { fprintf(stderr, "unreadable case file %s\n", casefile.c_str()); return 3; }           \
      g.current_case = ss.str();                                                                         \
      g.ctx.begin_case();                                                                                \
      alarm(60);                                                                                         \
      std::string msg = vf_run(c, g.ctx);                                                                \
      alarm(0);                                                                                          \
      if (msg.empty()) { printf("CASE-PASS %s\n", casefile.c_str()); return 0; }                         \
      printf("CASE-FAIL %s: %s\n", casefile.c_str(), msg.c_str());                                       \
      return 1;                                                                                          \
    }                                                                                                    \
    if (g.mode == "enum") {                                                                              \
      std::string msg = vf_enumerate(g.ctx, g.worker, g.nworkers, budget);                               \
      if (!msg.empty()) { g.failures_seen++; g.last_failure_msg = msg; }                                  \
      write_stats(msg.empty() ? "ok" : "failed");                                                        \
      if (!msg.empty()) printf("ENUM-FAIL %s\n", msg.c_str());                                           \
      return msg.empty() ? 0 : 1;                                                                        \
    }                                                                                                    \
    bool ok = rc::check(std::string(vf_property()), [&] {                                                \
      CaseT c = vf_generate();                                                                           \
      g.current_case = serialize(c, vf_property());                                                      \
      g.ctx.begin_case();                                                                                \
      alarm(60);                                                                                         \
      std::string msg = vf_run(c, g.ctx);                                                                \
      alarm(0);                                                                                          \
      if (!msg.empty()) {                                                                                \
        g.failures_seen++;                                                                               \
        g.last_failure_msg = msg;                                                                        \
        char name[64]; snprintf(name, sizeof name, "/violation-gen-%d.case", g.worker);                  \
        write_file(g.outdir + name, g.current_case + "# failure: " + esc(msg) + "\n");                   \
        RC_FAIL(msg);                                                                                    \
      }                                                                                                  \
      g.ctx.end_case([&] { return c.describe(); });                                                      \
    });                                                                                                  \
    write_stats(ok ? "ok" : "failed");                                                                   \
    return ok ? 0 : 1;                                                                                   \
  }
