// Generated port trees (1..3 levels) for C04/C09/C03/C18: run-time built rtosc::Ports tables whose
// sub-tree ports use the library's own recursion callbacks (rRecurCb, rRecurpCb, rRecursCb, rRecurspCb)
// and whose leaves are harness callbacks that record what they see. Plus a reference model of the tree.
#pragma once
#include "vf.hpp"
#include "refmatch.hpp"
#include "refosc.hpp"
#include <rtosc/ports.h>
#include <rtosc/port-sugar.h>
#include <memory>
#include <array>

namespace pt {

struct PortsProxy {
  const rtosc::Ports *p = nullptr;
  void dispatch(const char *m, rtosc::RtData &d, bool base = false) const { if (p) p->dispatch(m, d, base); }
};
struct DynPorts : rtosc::Ports {
  explicit DynPorts(const std::vector<rtosc::Port> &v) : Ports({}) { ports = v; refreshMagic(); }
};

template <int L, int V> struct Node;
template <int V> struct Node<2, V> { static PortsProxy ports; bool en = true; int tag = 0; };
template <int L, int V> struct Node {
  static PortsProxy ports;
  Node<L + 1, 0> one;   // first member on purpose: a sub-object that lives at its parent's address
  bool en = true;
  int tag = 0;
  Node<L + 1, 1> *ptr = nullptr;
  Node<L + 1, 2> many[4];
  Node<L + 1, 3> *manyp[4] = {nullptr, nullptr, nullptr, nullptr};
};
template <int L, int V> PortsProxy Node<L, V>::ports;
template <int V> PortsProxy Node<2, V>::ports;

// table ids: level 0 -> 0 ; level 1 variant v -> 1+v ; level 2 variant v -> 5+v
inline int table_id(int level, int variant) { return level == 0 ? 0 : (level == 1 ? 1 + variant : 5 + variant); }
inline int table_level(int id) { return id == 0 ? 0 : (id < 5 ? 1 : 2); }
inline PortsProxy &proxy(int id) {
  switch (id) {
    case 0: return Node<0, 0>::ports;
    case 1: return Node<1, 0>::ports; case 2: return Node<1, 1>::ports; case 3: return Node<1, 2>::ports; case 4: return Node<1, 3>::ports;
    case 5: return Node<2, 0>::ports; case 6: return Node<2, 1>::ports; case 7: return Node<2, 2>::ports; default: return Node<2, 3>::ports;
  }
}

// the library's recursion callbacks, instantiated per level/variant
typedef std::function<void(const char *, rtosc::RtData &)> cb_t;
template <int L, int V> struct Cbs {
  typedef Node<L, V> NodeT;
#define rObject NodeT
  static cb_t recur() { return rRecurCb(one); }
  static cb_t recurp() { return rRecurpCb(ptr); }
  static cb_t recurs() { return rRecursCb(many, 4); }
  static cb_t recursp() { return rRecurspCb(manyp); }
  static cb_t recurptr() { return rRecurPtrCb(one); }
#undef rObject
};
template <int L, int V> struct TCb {
  typedef Node<L, V> NodeT;
#define rObject NodeT
  static cb_t toggle() { return rToggleCb(en); }
#undef rObject
};
inline cb_t toggle_cb(int table) {
  switch (table) {
    case 0: return TCb<0, 0>::toggle();
    case 1: return TCb<1, 0>::toggle(); case 2: return TCb<1, 1>::toggle(); case 3: return TCb<1, 2>::toggle(); case 4: return TCb<1, 3>::toggle();
    case 5: return TCb<2, 0>::toggle(); case 6: return TCb<2, 1>::toggle(); case 7: return TCb<2, 2>::toggle(); default: return TCb<2, 3>::toggle();
  }
}
inline bool &en_ref(int table, void *obj) {
  switch (table) {
    case 0: return ((Node<0, 0> *)obj)->en;
    case 1: return ((Node<1, 0> *)obj)->en; case 2: return ((Node<1, 1> *)obj)->en; case 3: return ((Node<1, 2> *)obj)->en; case 4: return ((Node<1, 3> *)obj)->en;
    case 5: return ((Node<2, 0> *)obj)->en; case 6: return ((Node<2, 1> *)obj)->en; case 7: return ((Node<2, 2> *)obj)->en; default: return ((Node<2, 3> *)obj)->en;
  }
}
struct LeafCbs {
  static cb_t self() { return [](const char *, rtosc::RtData &d) { d.reply(d.loc, "b", sizeof(d.obj), &d.obj); }; }
};
enum Kind { LEAF = 0, RECUR = 1, RECURP = 2, RECURS = 3, RECURSP = 4, MULTI = 5 };
// MULTI: a sub-tree port with a multi-component name ("a#3/b#2/c/"); its callback is harness-made (hands down the
// 'one' child and cuts as many components as the name has) because the library's recursion macros cut exactly one
inline int child_variant(int kind) { return kind == MULTI ? 0 : kind - 1; }
inline cb_t recursion_cb(int table, int kind) {
#define PT_CASE(L, V) switch (kind) { case RECUR: return Cbs<L, V>::recur(); case RECURP: return Cbs<L, V>::recurp(); case RECURS: return Cbs<L, V>::recurs(); default: return Cbs<L, V>::recursp(); }
  switch (table) {
    case 0: PT_CASE(0, 0)
    case 1: PT_CASE(1, 0)
    case 2: PT_CASE(1, 1)
    case 3: PT_CASE(1, 2)
    default: PT_CASE(1, 3)
  }
#undef PT_CASE
}

// ---------------------------------------------------------------- generated description
struct PPort {
  std::string name;   // complete port name, e.g. "ab#3::i" or "c/"
  int kind = LEAF;
  std::string meta;   // metadata block (without the implicit final NUL)
  int role = 0;       // leaves: 0 recording leaf, 1 toggle (library rToggleCb on the object's 'en'), 2 rSelf-style port
  // format note: kind >= 100 marks records that carry 'role' (older case files do not)
  template <class A> void io(A &a) {
    a(name);
    int k = kind + 100;
    a(k);
    bool ext = k >= 100;
    kind = ext ? k - 100 : k;
    a(meta);
    if (ext) a(role); else role = 0;
  }
  bool subtree() const { return kind != LEAF; }
};
struct PTable {
  std::vector<PPort> ports;
  bool default_handler = false;
  template <class A> void io(A &a) { a(ports)(default_handler); }
};
struct Tree {
  std::vector<PTable> tables;   // always 9 entries (unused ones empty)
  bool null_ptr[2] = {false, false};           // per level: is 'ptr' NULL
  unsigned null_manyp[2] = {0, 0};             // per level: bitmask of NULL manyp[i]
  unsigned dis[3] = {0, 0, 0};                 // per level: bitmask of objects whose 'en' toggle is false (bit = slot, see slot())
  // format note: the first null_ptr flag is written +10 when the record carries dis[] (older case files do not)
  template <class A> void io(A &a) {
    a(tables);
    int np0 = (null_ptr[0] ? 1 : 0) + 10;
    a(np0);
    bool ext = np0 >= 10;
    null_ptr[0] = (ext ? np0 - 10 : np0) != 0;
    a(null_manyp[0]);
    a(null_ptr[1]); a(null_manyp[1]);
    if (ext) for (int l = 0; l < 3; l++) a(dis[l]); else dis[0] = dis[1] = dis[2] = 0;
  }
  // slot of a child object within its level: one=0, ptr=1, many[i]=2+i, manyp[i]=6+i (root: 0)
  static int slot(int kind, int idx) { return kind == 1 ? 0 : kind == 2 ? 1 : kind == 3 ? 2 + (idx & 3) : 6 + (idx & 3); }
  std::string describe() const {
    std::string d;
    for (size_t t = 0; t < tables.size(); t++) {
      if (tables[t].ports.empty()) continue;
      d += "T" + std::to_string(t) + (tables[t].default_handler ? "(dflt)" : "") + "{";
      for (auto &p : tables[t].ports) { d += "\"" + p.name + "\""; if (p.kind) d += std::string("~") + "?1psPm"[p.kind]; d += " "; }
      d += "} ";
    }
    d += "dis=" + std::to_string(dis[0]) + "," + std::to_string(dis[1]) + "," + std::to_string(dis[2]) + " null_ptr=" + std::to_string(null_ptr[0]) + std::to_string(null_ptr[1]) + " null_manyp=" + std::to_string(null_manyp[0]) + "," + std::to_string(null_manyp[1]);
    return d;
  }
};

// ---------------------------------------------------------------- runtime instance
struct Seen {   // one leaf (or default handler) invocation
  int table = -1, port = -1;   // port -1: default handler
  void *obj = nullptr;
  std::string loc;
  bool has_loc = false;
  const rtosc::Port *dport = nullptr;
  int idx0 = 0;
};
struct Instance {
  Tree tree;
  std::vector<std::unique_ptr<DynPorts>> tabs;        // by table id (nullptr if unused)
  std::vector<std::vector<std::unique_ptr<char[]>>> metas;   // metadata blocks in exact-size heap blocks (ASan sees over-reads)
  std::vector<std::pair<std::string, const char *>> shared_meta;
  std::vector<Seen> seen;
  bool record = true;
  bool built_hashfail[9] = {false};
  // objects
  Node<0, 0> root;
  std::vector<std::unique_ptr<Node<1, 1>>> p1;
  std::vector<std::unique_ptr<Node<1, 3>>> p1m;
  std::vector<std::unique_ptr<Node<2, 1>>> p2;
  std::vector<std::unique_ptr<Node<2, 3>>> p2m;

  bool en_of(int level, int kind, int idx) const { return !(tree.dis[level] & (1u << Tree::slot(kind, idx))); }
  template <int V> void wire2(Node<1, V> &n) {
    if (!tree.null_ptr[1]) { p2.emplace_back(new Node<2, 1>()); n.ptr = p2.back().get(); n.ptr->en = en_of(2, RECURP, 0); }
    for (int i = 0; i < 4; i++) if (!(tree.null_manyp[1] & (1u << i))) { p2m.emplace_back(new Node<2, 3>()); n.manyp[i] = p2m.back().get(); n.manyp[i]->en = en_of(2, RECURSP, i); }
    n.one.en = en_of(2, RECUR, 0);
    for (int i = 0; i < 4; i++) n.many[i].en = en_of(2, RECURS, i);
  }
  void wire() {
    root.en = !(tree.dis[0] & 1u);
    if (!tree.null_ptr[0]) { p1.emplace_back(new Node<1, 1>()); root.ptr = p1.back().get(); root.ptr->en = en_of(1, RECURP, 0); wire2(*root.ptr); }
    for (int i = 0; i < 4; i++) if (!(tree.null_manyp[0] & (1u << i))) { p1m.emplace_back(new Node<1, 3>()); root.manyp[i] = p1m.back().get(); root.manyp[i]->en = en_of(1, RECURSP, i); wire2(*root.manyp[i]); }
    root.one.en = en_of(1, RECUR, 0);
    wire2(root.one);
    for (int i = 0; i < 4; i++) { root.many[i].en = en_of(1, RECURS, i); wire2(root.many[i]); }
  }

  explicit Instance(const Tree &t, const std::function<cb_t(int, int)> &leafcb = nullptr) : tree(t) {
    wire();
    tabs.resize(9);
    metas.resize(9);
    // children first so that the proxies are valid (they are only used at dispatch time anyway)
    for (int id = 8; id >= 0; id--) {
      const PTable &pt_ = tree.tables[(size_t)id];
      proxy(id).p = nullptr;
      if (pt_.ports.empty() && id != 0) continue;
      metas[(size_t)id].reserve(pt_.ports.size());
      std::vector<rtosc::Port> v;
      for (size_t i = 0; i < pt_.ports.size(); i++) {
        const PPort &pp = pt_.ports[i];
        // ports with byte-identical metadata share one block, in whatever table they are (compilers merge equal literals)
        const char *block = nullptr;
        for (auto &kv : shared_meta) if (kv.first == pp.meta) block = kv.second;
        if (!block) {
          metas[(size_t)id].emplace_back(new char[pp.meta.size() + 1]);
          memcpy(metas[(size_t)id].back().get(), pp.meta.data(), pp.meta.size());
          metas[(size_t)id].back().get()[pp.meta.size()] = '\0';   // block = entries + terminating NUL
          block = metas[(size_t)id].back().get();
          shared_meta.emplace_back(pp.meta, block);
        }
        rtosc::Port p;
        p.name = pp.name.c_str();
        p.metadata = block;
        int level = table_level(id);
        if (pp.subtree() && level < 2) {
          int child = table_id(level + 1, child_variant(pp.kind));
          // an empty child table still needs a Ports object to walk/dispatch into
          if (!tabs[(size_t)child]) { tabs[(size_t)child].reset(new DynPorts({})); proxy(child).p = tabs[(size_t)child].get(); }
          p.ports = tabs[(size_t)child].get();
          if (pp.kind == MULTI) {
            int ncomp = 0;
            for (char ch : pp.name) if (ch == '/') ncomp++;
            refmatch::Pattern mpat = refmatch::parse(pp.name);
            p.cb = cb_t([this, id, child, ncomp, mpat](const char *m, rtosc::RtData &d) {
              // like an application callback, it can only tell which element is meant from its complete own name
              // ("row0/col1/cell/..."): anything else is not answered
              if (!refmatch::path_matches(mpat, std::string(m))) { d.obj = nullptr; return; }
              d.obj = child_obj(id, d.obj, RECUR, 0);
              for (int k = 0; k < ncomp; k++) { while (*m && *m != '/') ++m; if (*m) ++m; }
              proxy(child).dispatch(m, d);
            });
          } else
          p.cb = recursion_cb(id, pp.kind);
        } else {
          p.ports = nullptr;
          int ii = (int)i;
          cb_t inner = pp.role == 1 ? toggle_cb(id) : pp.role == 2 ? LeafCbs::self() : cb_t();
          p.cb = leafcb ? leafcb(id, ii) : cb_t([this, id, ii, inner](const char *m, rtosc::RtData &d) {
            Seen s; s.table = id; s.port = ii; s.obj = d.obj; s.dport = d.port; s.idx0 = d.idx[0];
            if (d.loc) { s.loc = d.loc; s.has_loc = true; }
            if (record) seen.push_back(s);
            if (inner && d.obj) inner(m, d);   // rRecurspCb hands down NULL element pointers unchecked; the toggle would dereference them (application hazard, no listed property)
          });
        }
        v.push_back(p);
      }
      // capture the library's own diagnostic about a failed perfect hash
      fflush(stderr);
      int saved = dup(2);
      char tmpl[] = "/tmp/verif-stderr-XXXXXX";
      int tf = mkstemp(tmpl);
      if (tf >= 0) { unlink(tmpl); dup2(tf, 2); }
      tabs[(size_t)id].reset(new DynPorts(v));
      fflush(stderr);
      if (tf >= 0) { off_t sz = lseek(tf, 0, SEEK_END); built_hashfail[id] = sz > 0; dup2(saved, 2); close(tf); }
      close(saved);
      if (pt_.default_handler)
        tabs[(size_t)id]->default_handler = [this, id](const char *, rtosc::RtData &d) {
          Seen s; s.table = id; s.port = -1; s.obj = d.obj; if (d.loc) { s.loc = d.loc; s.has_loc = true; }
          if (record) seen.push_back(s);
        };
      proxy(id).p = tabs[(size_t)id].get();
    }
  }
  ~Instance() { for (int id = 0; id < 9; id++) proxy(id).p = nullptr; }
  // the root table may be handed to the library through MergePorts (two halves merged, later duplicates by name
  // dropped) or ClonePorts (two leaf ports cloned with recording callbacks plus a '*' default handler)
  std::unique_ptr<DynPorts> half[2];
  std::unique_ptr<rtosc::Ports> wrapped;
  std::vector<int> root_index;     // wrapped root port i corresponds to tree.tables[0].ports[root_index[i]]
  int root_mode = 0;
  void wrap_root(int mode) {
    const std::vector<rtosc::Port> &v = tabs[0]->ports;
    if (mode == 1 && v.size() >= 2) {
      size_t h = v.size() / 2;
      half[0].reset(new DynPorts(std::vector<rtosc::Port>(v.begin(), v.begin() + (long)h)));
      half[1].reset(new DynPorts(std::vector<rtosc::Port>(v.begin() + (long)h, v.end())));
      wrapped.reset(new rtosc::MergePorts({half[0].get(), half[1].get()}));
      for (size_t i = 0; i < v.size(); i++) {
        bool dup = false;
        for (size_t j = 0; j < i; j++) if (!strcmp(v[j].name, v[i].name)) dup = true;
        if (!dup) root_index.push_back((int)i);
      }
      root_mode = 1;
    } else if (mode == 2) {
      std::vector<int> leaves;
      for (size_t i = 0; i < v.size(); i++) if (!v[i].ports) { bool later = false; for (size_t j = i + 1; j < v.size(); j++) if (!strcmp(v[j].name, v[i].name)) later = true; if (!later) leaves.push_back((int)i); }
      if (leaves.size() < 2) return;
      int a = leaves[0], b = leaves[leaves.size() - 1];
      if (!strcmp(v[(size_t)a].name, v[(size_t)b].name)) return;
      wrapped.reset(new rtosc::ClonePorts(*tabs[0], {{v[(size_t)a].name, v[(size_t)a].cb}, {v[(size_t)b].name, v[(size_t)b].cb},
                                                     {"*", [this](const char *, rtosc::RtData &d) { Seen s; s.table = 0; s.port = -1; s.obj = d.obj; if (d.loc) { s.loc = d.loc; s.has_loc = true; } if (record) seen.push_back(s); }}}));
      root_index = {a, b};
      root_mode = 2;
    }
    if (root_mode) {
      // the model sees the wrapped table: drop what the wrapper dropped (indices stay those of the original table)
      PTable nt;
      nt.default_handler = root_mode == 2 ? true : tree.tables[0].default_handler;
      model_root = nt;
      for (int i : root_index) model_root.ports.push_back(tree.tables[0].ports[(size_t)i]);
      if (root_mode == 1 && tree.tables[0].default_handler) wrapped->default_handler = tabs[0]->default_handler;
      proxy(0).p = wrapped.get();
    }
  }
  PTable model_root;
  const rtosc::Ports &rootports() const { return wrapped ? *wrapped : *tabs[0]; }

  // ---- reference model
  struct Expect { int table, port; void *obj; std::string loc; };
  // child object of 'obj' (a Node<level,variant of table>) for sub-tree kind k and index idx; nullptr if NULL
  void *child_obj(int table, void *obj, int kind, int idx) const {
#define PT_CH(L, V) { auto *n = (Node<L, V> *)obj; switch (kind) { case RECUR: return &n->one; case RECURP: return n->ptr; case RECURS: return &n->many[idx & 3]; default: return n->manyp[idx & 3]; } }
    switch (table) {
      case 0: PT_CH(0, 0)
      case 1: PT_CH(1, 0)
      case 2: PT_CH(1, 1)
      case 3: PT_CH(1, 2)
      case 4: PT_CH(1, 3)
    }
#undef PT_CH
    return nullptr;
  }
  // expected leaf invocations for an address (without the leading '/'). unspecified=true if a type
  // string merely extends an alternative somewhere (statement leaves that open).
  void expect(int table, void *obj, const std::string &rest, const std::string &tags, const std::string &loc, std::vector<Expect> &out, bool &unspecified) const {
    const PTable &t = (table == 0 && root_mode) ? model_root : tree.tables[(size_t)table];
    for (size_t i0 = 0; i0 < t.ports.size(); i0++) {
      const PPort &pp = t.ports[i0];
      size_t i = (table == 0 && root_mode) ? (size_t)root_index[i0] : i0;   // report indices of the original table
      refmatch::Pattern pat = refmatch::parse(pp.name);
      if (!refmatch::path_matches(pat, rest)) continue;
      refmatch::Expect te = refmatch::types_expect(pat, tags);
      if (te == refmatch::MUST_NOT) continue;
      if (te == refmatch::UNSPEC) { unspecified = true; continue; }
      if (!pp.subtree() || table_level(table) >= 2) {
        std::string l = loc;
        // the callback sees the address up to and including its own level
        if (pp.subtree()) { size_t s = rest.find('/'); l += rest.substr(0, s + 1); }
        else l += rest;
        out.push_back({table, (int)i, obj, l});
      } else {
        size_t s = rest.find('/');
        if (pp.kind == MULTI) { int nc = 0; for (char ch : pp.name) if (ch == '/') nc++; for (int k = 1; k < nc && s != std::string::npos; k++) s = rest.find('/', s + 1); }
        std::string comp = rest.substr(0, s);
        // index: first digit run of the component (as the library's array callbacks read it)
        int idx = 0;
        size_t dpos = comp.find_first_of("0123456789");
        if (dpos != std::string::npos) idx = atoi(comp.c_str() + dpos);
        if ((pp.kind == RECURS || pp.kind == RECURSP) && idx > 3) continue;  // cannot be generated (N<=4)
        void *co = child_obj(table, obj, pp.kind == MULTI ? (int)RECUR : pp.kind, idx);
        if (!co) continue;  // rRecurpCb and rRecurspCb return on a NULL pointer
        int child = table_id(table_level(table) + 1, child_variant(pp.kind));
        expect(child, co, rest.substr(s + 1), tags, loc + comp + "/", out, unspecified);
      }
    }
  }

  // ---- reference enumeration of a walk
  struct Report { int table, port; std::string addr; bool optional = false; };
  static std::string meta_get(const std::string &meta, const std::string &key) {
    // entries ":key\0[=value\0]"
    size_t i = 0;
    while (i < meta.size()) {
      if (meta[i] != ':') break;
      size_t e = meta.find('\0', i);
      if (e == std::string::npos) e = meta.size();
      std::string k = meta.substr(i + 1, e - i - 1);
      std::string v;
      size_t n = e + 1;
      if (n < meta.size() && meta[n] == '=') { size_t e2 = meta.find('\0', n); if (e2 == std::string::npos) e2 = meta.size(); v = meta.substr(n + 1, e2 - n - 1); n = e2 + 1; }
      if (k == key) return v;
      i = n;
    }
    return "";
  }
  // all concrete spellings of a port name's path part (each '#N' of the *first* enumeration expanded; leaves with
  // two '#' are known upstream not to expand and are not generated)
  static std::vector<std::pair<std::string, int>> expansions(const std::string &name) {
    std::string path = name.substr(0, name.find(':'));
    std::vector<std::pair<std::string, int>> out;
    size_t h = path.find('#');
    if (h == std::string::npos) { out.push_back({path, 0}); return out; }
    size_t e = h + 1;
    while (e < path.size() && isdigit((unsigned char)path[e])) e++;
    int n = atoi(path.c_str() + h + 1);
    for (int i = 0; i < n; i++) out.push_back({path.substr(0, h) + std::to_string(i) + path.substr(e), i});
    return out;
  }
  // sub-tree names: every '#N' is expanded (second: index of the first enumeration)
  static std::vector<std::pair<std::string, int>> expansions_all(const std::string &name) {
    std::vector<std::pair<std::string, int>> cur = {{"", -1}};
    std::string path = name.substr(0, name.find(':'));
    size_t i = 0;
    while (i < path.size()) {
      if (path[i] != '#') { for (auto &c : cur) c.first += path[i]; i++; continue; }
      size_t e = i + 1;
      while (e < path.size() && isdigit((unsigned char)path[e])) e++;
      int n = atoi(path.c_str() + i + 1);
      std::vector<std::pair<std::string, int>> next;
      for (auto &c : cur) for (int k = 0; k < n; k++) next.push_back({c.first + std::to_string(k), c.second < 0 ? k : c.second});
      cur = next;
      i = e;
    }
    for (auto &c : cur) if (c.second < 0) c.second = 0;
    return cur;
  }
  void model_walk(int table, void *obj, bool runtime, const std::string &prefix, std::vector<Report> &out) const {
    const PTable &t = tree.tables[(size_t)table];
    if (runtime) {
      // rSelf(..., rEnabledBy(toggle)) in this table: the whole table is skipped when the toggle is false
      for (size_t i = 0; i < t.ports.size(); i++)
        if (t.ports[i].name == "self:") {
          std::string en = meta_get(t.ports[i].meta, "enabled by");
          if (!en.empty() && !en_ref(table, obj)) {
            for (size_t k = 0; k < t.ports.size(); k++)
              if (t.ports[k].name.substr(0, t.ports[k].name.find(':')) == en) { out.push_back({table, (int)k, prefix + en, true}); break; }
            return;
          }
          break;  // operator[] finds the first "self:" port
        }
    }
    for (size_t i = 0; i < t.ports.size(); i++) {
      const PPort &pp = t.ports[i];
      if (!pp.subtree() || table_level(table) >= 2) {
        for (auto &ex : expansions(pp.name)) out.push_back({table, (int)i, prefix + ex.first, false});
        continue;
      }
      int child = table_id(table_level(table) + 1, child_variant(pp.kind));
      for (auto &ex : expansions_all(pp.name)) {
        void *co = nullptr;
        if (runtime) {
          co = child_obj(table, obj, pp.kind == MULTI ? (int)RECUR : pp.kind, ex.second);
          if (!co) continue;
          if (!meta_get(pp.meta, "enabled by").empty() && !en_ref(table, obj)) continue;
        }
        model_walk(child, co, runtime, prefix + ex.first, out);
      }
    }
  }
};

// ---------------------------------------------------------------- generator
static const char *TYPESPECS[] = {"", "", "", ":", ":i", "::i", ":i:f", ":ii:s", ":T:F", "::T:F", ":s"};
inline std::string gen_stem(int style) {
  // small alphabet: shared prefixes, equal lengths, anagrams
  if (style == 0) return vf::strover("abc", 1, 4);
  if (style == 1) return vf::strover("ab", 1, 5);
  return vf::strover("abcde_", 1, 8);
}
inline void gen_table(PTable &t, int level, int maxports, bool allow_sub) {
  int n = vf::sized<int>(1, maxports);
  int style = vf::pickn(3);
  std::set<int> used_kinds;
  for (int i = 0; i < n; i++) {
    PPort p;
    std::string stem = gen_stem(style);
    if (i > 0 && vf::chance(25)) {   // derive from an earlier name: anagram, extension, prefix
      std::string o = t.ports[(size_t)vf::pickn(i)].name;
      o = o.substr(0, o.find_first_of("#:/"));
      switch (vf::pickn(3)) {
        case 0: if (o.size() > 1) std::swap(o[0], o[o.size() - 1]); break;
        case 1: o += "abc"[vf::pickn(3)]; break;
        default: if (o.size() > 1) o.pop_back(); break;
      }
      if (!o.empty()) stem = o;
    }
    int kind = LEAF;
    if (allow_sub && level < 2 && vf::chance(30)) kind = vf::pick<int>(1, 4);
    p.kind = kind;
    if (kind == LEAF) {
      p.name = stem;
      if (vf::chance(25)) p.name += "#" + std::to_string(vf::chance(8) ? vf::oneof<int>({100, 101, 104, 128}) : vf::oneof<int>({1, 2, 3, 4, 10, 12}));   // also three-digit indices
      if (vf::chance(4)) p.name += "/" + gen_stem(style);     // leaf with an inner '/'
      p.name += TYPESPECS[vf::pickn(11)];
    } else if (kind == RECUR || kind == RECURP) p.name = stem + "/";
    else p.name = stem + "#" + std::to_string(vf::pick<int>(1, 4)) + "/";
    t.ports.push_back(p);
  }
  t.default_handler = vf::chance(20);
}
inline Tree gen_tree(int maxports = 24) {
  Tree t;
  t.tables.resize(9);
  int depth = vf::pick<int>(1, 3);
  gen_table(t.tables[0], 0, maxports, depth > 1);
  if (depth > 1)
    for (int v = 0; v < 4; v++) {
      bool used = false;
      for (auto &p : t.tables[0].ports) if (p.kind == v + 1) used = true;
      if (used) gen_table(t.tables[(size_t)(1 + v)], 1, std::max(2, maxports / 3), depth > 2);
    }
  if (depth > 2)
    for (int v = 0; v < 4; v++) {
      bool used = false;
      for (int t1 = 1; t1 <= 4; t1++) for (auto &p : t.tables[(size_t)t1].ports) if (p.kind == v + 1) used = true;
      if (used) gen_table(t.tables[(size_t)(5 + v)], 2, std::max(2, maxports / 4), false);
    }
  t.null_ptr[0] = vf::chance(20); t.null_ptr[1] = vf::chance(20);
  t.null_manyp[0] = vf::chance(40) ? (unsigned)vf::pickn(16) : 0;
  t.null_manyp[1] = vf::chance(40) ? (unsigned)vf::pickn(16) : 0;
  return t;
}

// add the two documented 'enabled by' forms to a tree: rRecur(sub, rEnabledBy(toggle)) with the toggle as sibling,
// and rSelf(type, rEnabledBy(toggle)) inside the sub-tree's table
inline void decorate_enabled(Tree &t) {
  for (int id = 0; id < 9; id++) {
    PTable &tb = t.tables[(size_t)id];
    if (tb.ports.empty()) continue;
    bool has_sub = false;
    for (auto &p : tb.ports) if (p.subtree() && table_level(id) < 2) has_sub = true;
    if (has_sub && vf::chance(50)) {   // sibling toggle
      PPort tg; tg.name = "en" + std::string(1, "xyz"[vf::pickn(3)]) + "::T:F"; tg.role = 1;
      std::string tn = tg.name.substr(0, tg.name.find(':'));
      tb.ports.insert(tb.ports.begin() + vf::pickn((int)tb.ports.size() + 1), tg);
      for (auto &p : tb.ports) if (p.subtree() && vf::chance(60)) p.meta += ":enabled by" + std::string(1, '\0') + "=" + tn + std::string(1, '\0');
    }
    if (id != 0 && vf::chance(35)) {   // self-disabling table
      PPort tg; tg.name = "on::T:F"; tg.role = 1;
      PPort self; self.name = "self:"; self.role = 2;
      self.meta = ":internal" + std::string(1, '\0') + ":enabled by" + std::string(1, '\0') + "=on" + std::string(1, '\0');
      tb.ports.insert(tb.ports.begin() + vf::pickn((int)tb.ports.size() + 1), tg);
      tb.ports.insert(tb.ports.begin() + vf::pickn((int)tb.ports.size() + 1), self);
    }
  }
  for (int l = 0; l < 3; l++) t.dis[l] = vf::chance(60) ? (unsigned)vf::pickn(1024) & (unsigned)vf::pickn(1024) : 0;
  if (vf::chance(30)) t.dis[0] |= 1;
}

// concrete address accepted by a port name (choices through vf::pickn); index may be forced out of range
inline std::string sample_name(const std::string &name, int index_mode /*0 in range,1 ==N,2 N-1*/) {
  refmatch::Pattern p = refmatch::parse(name);
  std::string a;
  for (auto &at : p.path) {
    if (at.k == refmatch::Atom::LIT) a += at.c;
    else if (at.k == refmatch::Atom::ENUM) {
      unsigned v = index_mode == 1 ? at.n : (index_mode == 2 ? at.n - 1 : (unsigned)vf::pickn((int)std::max(1u, at.n)));
      a += std::to_string(v);
    } else a += at.alts[(size_t)vf::pickn((int)at.alts.size())];
  }
  return a;
}
// walk down the tree choosing ports, return an address (no leading '/') that addresses a leaf
inline std::string gen_address(const Tree &t, std::string &tags_out) {
  std::string addr;
  int table = 0;
  for (int depth = 0; depth < 3; depth++) {
    const PTable &tb = t.tables[(size_t)table];
    if (tb.ports.empty()) break;
    const PPort &pp = tb.ports[(size_t)vf::pickn((int)tb.ports.size())];
    int im = vf::pickn(10);
    addr += sample_name(pp.name, im == 0 ? 1 : (im == 1 ? 2 : 0));
    if (!pp.subtree() || table_level(table) >= 2) {
      refmatch::Pattern pat = refmatch::parse(pp.name);
      if (pat.has_types && vf::chance(75)) tags_out = pat.types[(size_t)vf::pickn((int)pat.types.size())];
      else tags_out = vf::oneof<std::string>({"", "i", "f", "ii", "s", "T", "F", "if"});
      break;
    }
    table = table_id(table_level(table) + 1, child_variant(pp.kind));
  }
  return addr;
}
inline std::string mutate_address(std::string a) {
  static const std::string AL = "abcde/0123459_";
  int k = vf::pickn(7);
  if (a.empty()) k = 0;
  size_t pos = a.empty() ? 0 : (size_t)vf::pickn((int)a.size());
  switch (k) {
    case 0: a.insert(pos, 1, AL[(size_t)vf::pickn((int)AL.size())]); break;
    case 1: a.erase(pos, 1); break;
    case 2: a[pos] = AL[(size_t)vf::pickn((int)AL.size())]; break;
    case 3: a += AL[(size_t)vf::pickn((int)AL.size())]; break;
    case 4: a += "/"; break;
    case 5: { size_t s = a.find('/'); if (s != std::string::npos) a.erase(s, 1); else a.insert(pos, 1, '/'); break; }
    default: if (!a.empty()) a.pop_back(); break;
  }
  return a;
}

// message in a zero-padded buffer (match/dispatch precondition, see DESIGN.md section 1)
struct MsgBuf {
  std::vector<char> b;
  MsgBuf(const std::string &address, const std::string &tags, const std::vector<refosc::Val> *vals = nullptr) {
    std::vector<refosc::Val> v;
    if (vals) v = *vals;
    else for (char t : tags) { refosc::Val x; x.t = t; if (t == 's') x.s = "str"; v.push_back(x); }
    std::string m = refosc::encode(address, tags, v);
    b.assign(m.size() + 64, 0);
    memcpy(b.data(), m.data(), m.size());
  }
  const char *msg() const { return b.data(); }
};

}  // namespace pt
