// Reference matcher for rtosc path patterns, written from the property statement / Guide grammar:
//   literal text, '#N' enumerations, '{a,b,...}' alternatives, '/' separators, optional trailing '/',
//   optional ':types' alternatives. Backtracking over alternatives. Independent of src/dispatch.c.
#pragma once
#include <string>
#include <vector>
#include <cstdint>

namespace refmatch {

struct Atom {
  enum K { LIT, ENUM, ALT } k = LIT;
  char c = 0;                       // LIT
  unsigned n = 0;                   // ENUM
  std::vector<std::string> alts;    // ALT
};
struct Pattern {
  std::vector<Atom> path;
  bool has_types = false;
  std::vector<std::string> types;   // alternatives (may contain "")
  bool trailing_slash = false;
  bool ok = false;
};

inline Pattern parse(const std::string &s) {
  Pattern p;
  size_t i = 0;
  while (i < s.size() && s[i] != ':') {
    Atom a;
    if (s[i] == '#') {
      i++;
      if (i >= s.size() || s[i] < '0' || s[i] > '9') return p;
      uint64_t n = 0;
      while (i < s.size() && s[i] >= '0' && s[i] <= '9') n = n * 10 + (uint64_t)(s[i++] - '0');
      a.k = Atom::ENUM; a.n = (unsigned)n;
    } else if (s[i] == '{') {
      i++;
      a.k = Atom::ALT;
      std::string cur;
      while (i < s.size() && s[i] != '}') {
        if (s[i] == ',') { a.alts.push_back(cur); cur.clear(); }
        else cur += s[i];
        i++;
      }
      if (i >= s.size()) return p;
      a.alts.push_back(cur);
      i++;
    } else { a.k = Atom::LIT; a.c = s[i++]; }
    p.path.push_back(a);
  }
  p.trailing_slash = !p.path.empty() && p.path.back().k == Atom::LIT && p.path.back().c == '/';
  if (i < s.size()) {
    p.has_types = true;
    i++;  // ':'
    std::string cur;
    for (; i < s.size(); i++) {
      if (s[i] == ':') { p.types.push_back(cur); cur.clear(); }
      else cur += s[i];
    }
    p.types.push_back(cur);
  }
  p.ok = true;
  return p;
}

// backtracking: does addr[j..] match path[i..] ?   greedy=true: commit to the first alternative that fits
inline bool match_from(const Pattern &p, size_t i, const std::string &a, size_t j, bool greedy) {
  if (i == p.path.size()) return p.trailing_slash || j == a.size();
  const Atom &at = p.path[i];
  switch (at.k) {
    case Atom::LIT:
      if (j < a.size() && a[j] == at.c) {
        if (at.c == '/' && i + 1 == p.path.size()) return true;  // trailing '/': anything may follow
        return match_from(p, i + 1, a, j + 1, greedy);
      }
      return false;
    case Atom::ENUM: {
      size_t k = j;
      uint64_t v = 0;
      while (k < a.size() && a[k] >= '0' && a[k] <= '9' && k - j < 18) v = v * 10 + (uint64_t)(a[k++] - '0');
      if (k == j) return false;
      if (k < a.size() && a[k] >= '0' && a[k] <= '9') return false;  // absurdly long index
      if (v >= at.n) return false;
      return match_from(p, i + 1, a, k, greedy);
    }
    case Atom::ALT:
      for (auto &alt : at.alts) {
        if (a.compare(j, alt.size(), alt) == 0 && j + alt.size() <= a.size()) {
          if (match_from(p, i + 1, a, j + alt.size(), greedy)) return true;
          if (greedy) return false;
        }
      }
      return false;
  }
  return false;
}
inline bool path_matches(const Pattern &p, const std::string &addr) { return match_from(p, 0, addr, 0, false); }
inline bool path_matches_greedy(const Pattern &p, const std::string &addr) { return match_from(p, 0, addr, 0, true); }

enum Expect { MUST, MUST_NOT, UNSPEC };
// types: equal to an alternative -> MUST (given the path); proper extension of one -> UNSPEC; else MUST_NOT
inline Expect types_expect(const Pattern &p, const std::string &tags) {
  if (!p.has_types) return MUST;
  bool ext = false;
  for (auto &t : p.types) {
    if (t == tags) return MUST;
    if (tags.size() > t.size() && tags.compare(0, t.size(), t) == 0) ext = true;
  }
  return ext ? UNSPEC : MUST_NOT;
}

// a concrete address accepted by the pattern (choices through 'pick(n)')
template <class Pick> inline std::string sample(const Pattern &p, Pick pick, bool leading_zeros) {
  std::string a;
  for (auto &at : p.path) {
    switch (at.k) {
      case Atom::LIT: a += at.c; break;
      case Atom::ENUM: {
        unsigned v = at.n ? (unsigned)pick((int)std::min<unsigned>(at.n, 1000000)) : 0;
        std::string d = std::to_string(v);
        if (leading_zeros) { size_t room = d.size() < 9 ? 9 - d.size() : 0; d = std::string((size_t)pick((int)room + 1), '0') + d; }   // up to 9 digits in total
        a += d;
        break;
      }
      case Atom::ALT: a += at.alts[(size_t)pick((int)at.alts.size())]; break;
    }
  }
  return a;
}

}  // namespace refmatch
