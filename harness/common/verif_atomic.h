// Forced include (-include) for src/cpp/thread-link.cpp in the 'sched' build configuration:
// every std::atomic access and every memcpy of that file becomes a point where the harness
// regains control (C06). No source change in /repo is needed, and a change of thread-link.cpp that
// adds, drops or reorders a shared access is instrumented automatically.
#pragma once
#include <atomic>
#include <cstring>
#include <cstddef>

extern "C" void verif_yield(int kind, const void *addr, const void *addr2, std::size_t n);
enum { VY_LOAD = 1, VY_STORE = 2, VY_COPY_BEGIN = 3, VY_COPY_MID = 4, VY_COPY_END = 5 };

namespace std {
template <class T> struct verif_atomic {
  T v;
  verif_atomic() { std::memset(&v, 0xA5, sizeof v); }   // like std::atomic before C++20: no value until one is stored (a poison pattern keeps runs reproducible)
  verif_atomic(T x) : v(x) {}
  verif_atomic(const verif_atomic &) = delete;
  operator T() const { verif_yield(VY_LOAD, &v, nullptr, sizeof(T)); return v; }
  T operator=(T x) { verif_yield(VY_STORE, &v, nullptr, sizeof(T)); v = x; return x; }
  T load(std::memory_order = std::memory_order_seq_cst) const { verif_yield(VY_LOAD, &v, nullptr, sizeof(T)); return v; }
  void store(T x, std::memory_order = std::memory_order_seq_cst) { verif_yield(VY_STORE, &v, nullptr, sizeof(T)); v = x; }
  T exchange(T x, std::memory_order = std::memory_order_seq_cst) { verif_yield(VY_STORE, &v, nullptr, sizeof(T)); T o = v; v = x; return o; }
  T fetch_add(T x, std::memory_order = std::memory_order_seq_cst) { verif_yield(VY_STORE, &v, nullptr, sizeof(T)); T o = v; v = (T)(v + x); return o; }
  bool compare_exchange_strong(T &e, T d, std::memory_order = std::memory_order_seq_cst, std::memory_order = std::memory_order_seq_cst) {
    verif_yield(VY_STORE, &v, nullptr, sizeof(T));
    if (v == e) { v = d; return true; }
    e = v; return false;
  }
  bool compare_exchange_weak(T &e, T d, std::memory_order a = std::memory_order_seq_cst, std::memory_order b = std::memory_order_seq_cst) { return compare_exchange_strong(e, d, a, b); }
};
}  // namespace std

static inline void *verif_memcpy(void *d, const void *s, std::size_t n) {
  verif_yield(VY_COPY_BEGIN, d, s, n);
  std::size_t h = n / 2;
  for (std::size_t i = 0; i < h; i++) ((char *)d)[i] = ((const char *)s)[i];
  verif_yield(VY_COPY_MID, d, s, n);
  for (std::size_t i = h; i < n; i++) ((char *)d)[i] = ((const char *)s)[i];
  verif_yield(VY_COPY_END, d, s, n);
  return d;
}
#define atomic verif_atomic
#define memcpy verif_memcpy
