// Reference OSC 1.0 codec written from the specification (plus rtosc's documented
// extension tags h t d S c r m T F N I [ ]). Independent of the code under test.
#pragma once
#include <cstdint>
#include <string>
#include <vector>
#include <cstring>

namespace refosc {

struct Val {
  char t = 'i';
  uint64_t u = 0;        // raw bits: i c r f -> low 32; h t d -> 64; m -> b0<<24|b1<<16|b2<<8|b3; T/F/N/I unused
  std::string s;         // s S: text (no NUL); b: payload
  bool nullblob = false; // b: caller passes data==NULL (encodes as zeros)
  template <class A> void io(A &a) { a(t)(u)(s)(nullblob); }
};

inline bool has_payload(char t) {
  switch (t) { case 'i': case 'f': case 's': case 'b': case 'h': case 't': case 'd': case 'S': case 'c': case 'r': case 'm': return true; }
  return false;
}
inline bool is_value_tag(char t) { return has_payload(t) || t == 'T' || t == 'F' || t == 'N' || t == 'I'; }

inline void pad4(std::string &o) { do o.push_back('\0'); while (o.size() % 4); }  // at least one NUL, to 4
inline void pad4blob(std::string &o) { while (o.size() % 4) o.push_back('\0'); }
inline void be32(std::string &o, uint32_t v) { for (int k = 3; k >= 0; k--) o.push_back((char)((v >> (8 * k)) & 0xff)); }
inline void be64(std::string &o, uint64_t v) { for (int k = 7; k >= 0; k--) o.push_back((char)((v >> (8 * k)) & 0xff)); }

// tags may contain '[' ']' ; vals holds one entry per non-bracket tag, in order
inline std::string encode(const std::string &address, const std::string &tags, const std::vector<Val> &vals) {
  std::string o = address;
  pad4(o);
  o.push_back(',');
  o += tags;
  pad4(o);
  size_t vi = 0;
  for (char t : tags) {
    if (t == '[' || t == ']') continue;
    const Val &v = vals[vi++];
    switch (t) {
      case 'i': case 'f': case 'c': case 'r': case 'm': be32(o, (uint32_t)v.u); break;
      case 'h': case 't': case 'd': be64(o, v.u); break;
      case 's': case 'S': o += v.s; pad4(o); break;
      case 'b': be32(o, (uint32_t)v.s.size()); if (v.nullblob) o.append(v.s.size(), '\0'); else o += v.s; pad4blob(o); break;
      default: break;
    }
  }
  return o;
}

inline std::string encode_bundle(uint64_t tt, const std::vector<std::string> &elements) {
  std::string o("#bundle\0", 8);
  be64(o, tt);
  for (auto &e : elements) { be32(o, (uint32_t)e.size()); o += e; }
  return o;
}

struct DVal {
  char t = 0;
  uint64_t u = 0;
  size_t off = 0, len = 0;  // s/S: text offset,length ; b: payload offset,length
};
enum Status { OK, MALFORMED, UNDECODABLE };
struct Decoded {
  Status st = MALFORMED;
  std::string reason;
  std::string address, tags;
  std::vector<DVal> vals;
  size_t size = 0;  // bytes consumed
};

// Strict decoder: exactly one message occupying all n bytes. Padding *content* is not
// examined beyond the terminating NUL of each string (lenient), structure is.
inline Decoded decode(const unsigned char *p, size_t n) {
  Decoded d;
  auto bad = [&](const char *r) { d.st = MALFORMED; d.reason = r; return d; };
  size_t pos = 0;
  while (pos < n && p[pos]) pos++;
  if (pos == n) return bad("address not terminated");
  if (pos == 0) return bad("empty address");
  d.address.assign((const char *)p, pos);
  pos = (pos / 4 + 1) * 4;
  if (pos >= n) return bad("no type tag string");
  if (p[pos] != ',') return bad("type tag string does not start with ',' at the aligned position");
  size_t ts = pos + 1;
  size_t te = ts;
  while (te < n && p[te]) te++;
  if (te == n) return bad("type tags not terminated");
  d.tags.assign((const char *)p + ts, te - ts);
  pos = pos + ((te - pos) / 4 + 1) * 4;
  if (pos > n) return bad("type tag padding truncated");
  bool unknown = false;
  for (char t : d.tags) {
    if (t == '[' || t == ']') continue;
    DVal v;
    v.t = t;
    switch (t) {
      case 'i': case 'f': case 'c': case 'r': case 'm':
        if (pos + 4 > n) return bad("4-byte argument truncated");
        v.u = ((uint64_t)p[pos] << 24) | ((uint64_t)p[pos + 1] << 16) | ((uint64_t)p[pos + 2] << 8) | p[pos + 3];
        pos += 4;
        break;
      case 'h': case 't': case 'd':
        if (pos + 8 > n) return bad("8-byte argument truncated");
        for (int k = 0; k < 8; k++) v.u = (v.u << 8) | p[pos + k];
        pos += 8;
        break;
      case 's': case 'S': {
        size_t e = pos;
        while (e < n && p[e]) e++;
        if (e >= n) return bad("string argument not terminated");
        v.off = pos; v.len = e - pos;
        pos = pos + ((e - pos) / 4 + 1) * 4;
        if (pos > n) return bad("string padding truncated");
        break;
      }
      case 'b': {
        if (pos + 4 > n) return bad("blob length truncated");
        uint64_t l = ((uint64_t)p[pos] << 24) | ((uint64_t)p[pos + 1] << 16) | ((uint64_t)p[pos + 2] << 8) | p[pos + 3];
        pos += 4;
        if (l > n || pos + l > n) return bad("blob payload exceeds buffer");
        v.off = pos; v.len = (size_t)l; v.u = l;
        pos += (size_t)l;
        pos = (pos + 3) / 4 * 4;
        if (pos > n) return bad("blob padding truncated");
        break;
      }
      case 'T': case 'F': case 'N': case 'I': break;
      default: unknown = true; break;
    }
    if (unknown) break;
    d.vals.push_back(v);
  }
  if (unknown) { d.st = UNDECODABLE; d.reason = "unknown type tag"; return d; }
  d.size = pos;
  if (pos != n) return bad("trailing bytes after last argument");
  d.st = OK;
  return d;
}

}  // namespace refosc
