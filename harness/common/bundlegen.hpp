// Recursive bundle element generator shared by C08 and C02.
#pragma once
#include "msggen.hpp"
#include <memory>

namespace bg {
struct Elem {
  bool is_bundle = false;
  mg::Msg m;
  uint64_t tt = 0;
  std::vector<Elem> kids;
  template <class A> void io(A &a) { a(is_bundle)(m)(tt)(kids); }
  std::string ref() const {
    if (!is_bundle) return m.ref();
    std::vector<std::string> e;
    for (auto &k : kids) e.push_back(k.ref());
    return refosc::encode_bundle(tt, e);
  }
  int depth() const { int d = 0; for (auto &k : kids) d = std::max(d, k.depth()); return is_bundle ? d + 1 : 0; }
  std::string describe() const {
    if (!is_bundle) return "msg(" + m.describe() + ")";
    char b[32]; snprintf(b, sizeof b, "%llx", (unsigned long long)tt);
    std::string d = std::string("bundle(tt=0x") + b + ", [";
    for (auto &k : kids) d += k.describe() + ", ";
    return d + "])";
  }
};

inline uint64_t gen_tt() {
  switch (vf::pickn(6)) {
    case 0: return 0;
    case 1: return 1;
    case 2: return 1ull << 63;
    case 3: return ~0ull;
    default: return vf::bits64();
  }
}

inline Elem gen_elem(int depth_left, int maxkids, bool force_bundle) {
  Elem e;
  e.is_bundle = force_bundle || (depth_left > 0 && vf::chance(35));
  if (!e.is_bundle) {
    e.m = mg::gen_msg(6, 40, 12);
    return e;
  }
  e.tt = gen_tt();
  int k = vf::sized<int>(0, maxkids);
  for (int i = 0; i < k; i++) e.kids.push_back(gen_elem(depth_left - 1, depth_left > 1 ? 3 : maxkids, false));
  return e;
}

// element bytes in its own heap block followed by 4 zero bytes (the zero size word that delimits
// a bundle when rtosc_bundle measures its elements with an unbounded length)
struct Block {
  std::unique_ptr<char[]> p;
  size_t n = 0;
  explicit Block(const std::string &s) : p(new char[s.size() + 4]), n(s.size()) { memcpy(p.get(), s.data(), n); memset(p.get() + n, 0, 4); }
};

inline size_t call_bundle(char *buf, size_t len, uint64_t tt, const std::vector<const char *> &e) {
  switch (e.size()) {
    case 0: return rtosc_bundle(buf, len, tt, 0);
    case 1: return rtosc_bundle(buf, len, tt, 1, e[0]);
    case 2: return rtosc_bundle(buf, len, tt, 2, e[0], e[1]);
    case 3: return rtosc_bundle(buf, len, tt, 3, e[0], e[1], e[2]);
    case 4: return rtosc_bundle(buf, len, tt, 4, e[0], e[1], e[2], e[3]);
    case 5: return rtosc_bundle(buf, len, tt, 5, e[0], e[1], e[2], e[3], e[4]);
    case 6: return rtosc_bundle(buf, len, tt, 6, e[0], e[1], e[2], e[3], e[4], e[5]);
    case 7: return rtosc_bundle(buf, len, tt, 7, e[0], e[1], e[2], e[3], e[4], e[5], e[6]);
    case 8: return rtosc_bundle(buf, len, tt, 8, e[0], e[1], e[2], e[3], e[4], e[5], e[6], e[7]);
  }
  return (size_t)-1;
}
}  // namespace bg
