// Abstract argument-value lists, their compressed representations and conversion to rtosc_arg_val_t
// layout (arrays 'a', ranges '-'), shared by C16 (and C10).
#pragma once
#include "vf.hpp"
#include <rtosc/rtosc.h>
#include <rtosc/arg-ext.h>
#include <deque>

namespace avg {

struct V {
  char t = 'i';
  int64_t i = 0;      // i c r h (r,m as raw 32 bit), t as bits
  double d = 0;       // f d
  std::string s;      // s S b
  char at = 'i';      // a: element type
  std::vector<V> el;  // a: elements (flat)
  std::vector<int> seg;  // a: segmentation of el (see Rep)
  template <class A> void io(A &a) { a(t)(i)(d)(s)(at)(el)(seg); }
};

// segmentation of a flat list: seg[k] = length of k-th segment, sign encodes kind:
//   1 plain ; n>=2 constant run 'n x v' ; n<=-2 arithmetic run of -n elements
using Seg = std::vector<int>;

inline bool scalar_eq(const V &a, const V &b);
inline bool v_eq(const V &a, const V &b) {
  if (a.t != b.t) return false;
  switch (a.t) {
    case 'i': case 'c': case 'r': case 'h': case 't': case 'm': return a.i == b.i;
    case 'f': return (float)a.d == (float)b.d;
    case 'd': return a.d == b.d;
    case 's': case 'S': case 'b': return a.s == b.s;
    case 'T': case 'F': case 'N': case 'I': return true;
    case 'a': {
      bool tf = (a.at == 'T' || a.at == 'F') && (b.at == 'T' || b.at == 'F');
      if (a.at != b.at && !tf) return false;
      if (a.el.size() != b.el.size()) return false;
      for (size_t k = 0; k < a.el.size(); k++) if (!v_eq(a.el[k], b.el[k])) return false;
      return true;
    }
    case '-': {  // open-ended range marker: at = 'd' (start, delta) or 'c' (start)
      if (a.at != b.at || a.el.size() != b.el.size()) return false;
      for (size_t k = 0; k < a.el.size(); k++) if (!v_eq(a.el[k], b.el[k])) return false;
      return true;
    }
  }
  return false;
}
// bitwise identity (run detection: a compressed run must expand to exactly the original values)
inline bool v_same(const V &a, const V &b) {
  if (!v_eq(a, b)) return false;
  if (a.t == 'f') { float x = (float)a.d, y = (float)b.d; return !memcmp(&x, &y, 4); }
  if (a.t == 'd') return !memcmp(&a.d, &b.d, 8);
  return true;
}
inline bool list_eq(const std::vector<V> &a, const std::vector<V> &b) {
  if (a.size() != b.size()) return false;
  for (size_t k = 0; k < a.size(); k++) if (!v_eq(a[k], b[k])) return false;
  return true;
}

inline std::string show(const V &v) {
  char b[64];
  switch (v.t) {
    case 'i': case 'c': case 'h': snprintf(b, sizeof b, "%c:%lld", v.t, (long long)v.i); return b;
    case 'r': case 'm': snprintf(b, sizeof b, "%c:%08llx", v.t, (unsigned long long)(uint32_t)v.i); return b;
    case 't': snprintf(b, sizeof b, "t:%llx", (unsigned long long)v.i); return b;
    case 'f': case 'd': snprintf(b, sizeof b, "%c:%a", v.t, v.d); return b;
    case 's': case 'S': return std::string(1, v.t) + ":\"" + vf::esc(v.s) + "\"";
    case 'b': return "b:" + vf::hexenc(v.s);
    case 'a': { std::string o = std::string("[") + v.at + ":"; for (auto &e : v.el) o += show(e) + " "; o += "|seg"; for (int s : v.seg) o += " " + std::to_string(s); return o + "]"; }
    case '-': { std::string o = std::string("(open range ") + (v.at == 'd' ? "start,delta: " : "repeat: "); for (auto &e : v.el) o += show(e) + " "; return o + "...)"; }
    default: return std::string(1, v.t);
  }
}
inline std::string show(const std::vector<V> &l, const Seg &seg) {
  std::string o;
  for (auto &v : l) o += show(v) + " ";
  o += "| seg";
  for (int s : seg) o += " " + std::to_string(s);
  return o;
}

// ---- conversion to the rtosc layout. Strings/blobs point into the V objects (must outlive the result).
inline void put_scalar(std::vector<rtosc_arg_val_t> &out, const V &v) {
  rtosc_arg_val_t a;
  memset(&a, 0, sizeof a);
  a.type = v.t;
  switch (v.t) {
    case 'i': case 'c': case 'r': a.val.i = (int32_t)v.i; break;
    case 'h': a.val.h = v.i; break;
    case 't': a.val.t = (uint64_t)v.i; break;
    case 'm': { uint32_t u = (uint32_t)v.i; a.val.m[0] = (uint8_t)(u >> 24); a.val.m[1] = (uint8_t)(u >> 16); a.val.m[2] = (uint8_t)(u >> 8); a.val.m[3] = (uint8_t)u; break; }
    case 'f': a.val.f = (float)v.d; break;
    case 'd': a.val.d = v.d; break;
    case 's': case 'S': a.val.s = v.s.c_str(); break;
    case 'b': a.val.b.len = (int32_t)v.s.size(); a.val.b.data = (uint8_t *)v.s.data(); break;
    case 'T': a.val.T = 1; break;
    default: break;
  }
  out.push_back(a);
}
inline V delta_of(const V &a, const V &b) {
  V d; d.t = a.t;
  if (a.t == 'f') d.d = (double)((float)b.d - (float)a.d);
  else if (a.t == 'd') d.d = b.d - a.d;
  else if (a.t == 'h') d.i = (int64_t)((uint64_t)b.i - (uint64_t)a.i);
  else d.i = (int64_t)(int32_t)((uint32_t)b.i - (uint32_t)a.i);
  return d;
}
inline void build(std::vector<rtosc_arg_val_t> &out, const std::vector<V> &l, const Seg &seg, bool plain = false);
inline void put(std::vector<rtosc_arg_val_t> &out, const V &v, bool plain = false) {
  if (v.t != 'a') { put_scalar(out, v); return; }
  rtosc_arg_val_t a;
  memset(&a, 0, sizeof a);
  a.type = 'a';
  size_t at = out.size();
  out.push_back(a);
  Seg s = v.seg;
  if (s.empty() || plain) s.assign(v.el.size(), 1);
  build(out, v.el, s, plain);
  rtosc_av_arr_type_set(&out[at], v.at);
  rtosc_av_arr_len_set(&out[at], (int32_t)(out.size() - at - 1));
}
inline void build(std::vector<rtosc_arg_val_t> &out, const std::vector<V> &l, const Seg &seg, bool plain) {
  size_t pos = 0;
  for (int s : seg) {
    if (s == 1) { put(out, l[pos], plain); pos++; continue; }
    rtosc_arg_val_t r;
    memset(&r, 0, sizeof r);
    r.type = '-';
    int n = s > 0 ? s : -s;
    rtosc_av_rep_num_set(&r, n);
    rtosc_av_rep_has_delta_set(&r, s < 0 ? 1 : 0);
    out.push_back(r);
    if (s < 0) put_scalar(out, delta_of(l[pos], l[pos + 1]));
    put(out, l[pos], plain);
    pos += (size_t)n;
  }
}
inline Seg plain_seg(size_t n) { return Seg(n, 1); }

// element number k of an arithmetic run, computed the way the documented layout defines it: start + k*delta in the type
inline V nth(const V &start, const V &delta, int k) {
  V r = start;
  switch (start.t) {
    case 'f': r.d = (double)((float)start.d + (float)k * (float)delta.d); break;
    case 'd': r.d = start.d + (double)k * delta.d; break;
    case 'h': r.i = (int64_t)((uint64_t)start.i + (uint64_t)(int64_t)k * (uint64_t)delta.i); break;
    default: r.i = (int64_t)(int32_t)((uint32_t)start.i + (uint32_t)k * (uint32_t)delta.i); break;
  }
  return r;
}

// choose a random segmentation of a flat list: maximal constant / arithmetic runs may be compressed
inline bool runnable_const(char t) { return strchr("ichfdTFsSrmtbNI", t) != nullptr; }
inline bool runnable_arith(char t) { return strchr("ichfd", t) != nullptr; }
inline Seg gen_seg(const std::vector<V> &l, int pct_compress, bool allow_wrap = true, const char *arith_types = "ichfd") {   // allow_wrap: integer runs whose expansion wraps around the type's limits
  Seg seg;
  size_t i = 0;
  while (i < l.size()) {
    size_t j = i + 1;
    if (runnable_const(l[i].t) || l[i].t == 'a') {   // arrays may be repeated as well ("3x[1 2]")
      while (j < l.size() && l[j].t == l[i].t && (l[i].t == 'a' ? (l[j].at == l[i].at && list_eq(l[j].el, l[i].el) && l[j].el.size() == l[i].el.size()) : v_same(l[j], l[i]))) j++;
      if (j - i >= 2 && vf::chance(pct_compress)) {
        size_t take = (size_t)vf::pick<int>(2, (int)(j - i));
        seg.push_back((int)take);
        i += take;
        continue;
      }
    }
    if (l[i].t != 'a' && runnable_arith(l[i].t) && strchr(arith_types, l[i].t) && i + 1 < l.size() && l[i + 1].t == l[i].t && !v_eq(l[i], l[i + 1])) {
      V d = delta_of(l[i], l[i + 1]);
      j = i + 1;
      while (j < l.size() && l[j].t == l[i].t && v_same(l[j], nth(l[i], d, (int)(j - i)))) j++;
      if (!v_same(l[i], nth(l[i], d, 0))) j = i + 1;
      if (!allow_wrap && (l[i].t == 'i' || l[i].t == 'h' || l[i].t == 'c')) {
        size_t k = i + 1;
        while (k < j && (d.i > 0) == (l[k].i > l[k - 1].i)) k++;
        j = k;
      }
      if (j - i >= 2 && vf::chance(pct_compress)) {
        size_t take = (size_t)vf::pick<int>(2, (int)(j - i));
        seg.push_back(-(int)take);
        i += take;
        continue;
      }
    }
    seg.push_back(1);
    i++;
  }
  return seg;
}
inline bool has_compression(const Seg &s) { for (int x : s) if (x != 1) return true; return false; }

}  // namespace avg

// ---- reading the rtosc layout back into V lists (own expansion of ranges; arrays keep their element lists)
namespace avg {
inline bool from_scalar(const rtosc_arg_val_t &a, V &v) {
  v = V();
  v.t = a.type;
  switch (a.type) {
    case 'i': case 'c': case 'r': v.i = a.val.i; return true;
    case 'h': v.i = a.val.h; return true;
    case 't': v.i = (int64_t)a.val.t; return true;
    case 'm': v.i = (int32_t)(((uint32_t)a.val.m[0] << 24) | ((uint32_t)a.val.m[1] << 16) | ((uint32_t)a.val.m[2] << 8) | a.val.m[3]); return true;
    case 'f': v.d = (double)a.val.f; return true;
    case 'd': v.d = a.val.d; return true;
    case 's': case 'S': v.s = a.val.s ? a.val.s : ""; return true;
    case 'b': v.s.assign((const char *)a.val.b.data, (size_t)std::max(0, a.val.b.len)); return true;
    case 'T': case 'F': case 'N': case 'I': return true;
  }
  return false;
}
// returns number of raw entries consumed, 0 on malformed layout. 'limit' bounds expansion.
inline size_t expand(const rtosc_arg_val_t *a, size_t n, std::vector<V> &out, std::string &err, bool inside_array = false) {
  size_t i = 0;
  while (i < n) {
    if (a[i].type == 'a') {
      V v; v.t = 'a'; v.at = rtosc_av_arr_type(&a[i]);
      int32_t len = rtosc_av_arr_len(&a[i]);
      if (len < 0 || i + 1 + (size_t)len > n) { err = "array length runs past the list"; return 0; }
      if (expand(a + i + 1, (size_t)len, v.el, err, true) != (size_t)len) { if (err.empty()) err = "array contents malformed"; return 0; }
      out.push_back(v);
      i += 1 + (size_t)len;
    } else if (a[i].type == '-') {
      int32_t num = rtosc_av_rep_num(&a[i]);
      int32_t hd = rtosc_av_rep_has_delta(&a[i]);
      if (num < 0 || num > 100000) { err = "absurd range count"; return 0; }
      size_t need = hd ? 3 : 2;
      if (i + need > n) { err = "range runs past the list"; return 0; }
      if (num == 0) {  // infinite range, only at the end of arrays: represented as a marker value
        V inf; inf.t = '-'; inf.at = hd ? 'd' : 'c';
        if (!inside_array) { err = "infinite range outside an array"; return 0; }
        V s, d;
        if (hd) { if (!from_scalar(a[i + 1], d) || !from_scalar(a[i + 2], s)) { err = "infinite range operands"; return 0; } inf.el = {s, d}; }
        else { if (a[i + 1].type == 'a') { err = "infinite array range unsupported by harness"; return 0; } if (!from_scalar(a[i + 1], s)) { err = "infinite range operand"; return 0; } inf.el = {s}; }
        out.push_back(inf);
        i += need;
        continue;
      }
      if (hd) {
        V d, s;
        if (!from_scalar(a[i + 1], d) || !from_scalar(a[i + 2], s)) { err = "range operands are not scalars"; return 0; }
        for (int k = 0; k < num; k++) out.push_back(nth(s, d, k));
        i += 3;
      } else {
        if (a[i + 1].type == 'a') {
          std::vector<V> one;
          int32_t len = rtosc_av_arr_len(&a[i + 1]);
          if (len < 0 || i + 2 + (size_t)len > n) { err = "repeated array runs past the list"; return 0; }
          if (expand(a + i + 1, 1 + (size_t)len, one, err, inside_array) != 1 + (size_t)len || one.size() != 1) { if (err.empty()) err = "repeated array malformed"; return 0; }
          for (int k = 0; k < num; k++) out.push_back(one[0]);
          i += 2 + (size_t)len;
        } else {
          V s;
          if (!from_scalar(a[i + 1], s)) { err = std::string("repeated value has unknown type '") + a[i + 1].type + "'"; return 0; }
          for (int k = 0; k < num; k++) out.push_back(s);
          i += 2;
        }
      }
    } else {
      V v;
      if (!from_scalar(a[i], v)) { err = std::string("unknown type '") + a[i].type + "' (" + std::to_string((int)a[i].type) + ")"; return 0; }
      out.push_back(v);
      i++;
    }
  }
  return i;
}
inline bool list_same(const std::vector<V> &a, const std::vector<V> &b, std::string &where) {
  if (a.size() != b.size()) { where = "length " + std::to_string(a.size()) + " vs " + std::to_string(b.size()); return false; }
  for (size_t k = 0; k < a.size(); k++) {
    if (a[k].t == 'a' && b[k].t == 'a') {
      bool tf = (a[k].at == 'T' || a[k].at == 'F') && (b[k].at == 'T' || b[k].at == 'F');
      if (!a[k].el.empty() && a[k].at != b[k].at && !tf) { where = "element " + std::to_string(k) + ": array element type '" + a[k].at + "' vs '" + b[k].at + "'"; return false; }
      std::string w2;
      if (!list_same(a[k].el, b[k].el, w2)) { where = "element " + std::to_string(k) + " (array): " + w2; return false; }
    } else if (!v_same(a[k], b[k])) { where = "element " + std::to_string(k) + ": " + show(a[k]) + " vs " + show(b[k]); return false; }
  }
  return true;
}
}  // namespace avg
