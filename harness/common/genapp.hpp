// Generated applications for C12/C13: a root object with a sub-object (rRecur), a pointer sub-object (rRecurp)
// and an array of sub-objects (rRecurs). Which parameter ports exist, their ranges, defaults (plain or
// preset-dependent), option maps and 'enabled by' links are generated; the port tables are assembled at run
// time from generated metadata bytes and the library's own callback macros.
#pragma once
#include "vf.hpp"
#include "ptree.hpp"
#include <rtosc/ports.h>
#include <rtosc/port-sugar.h>
#include <rtosc/savefile.h>

namespace ga {

struct Hook { std::function<void(const char *)> fn; };
inline Hook &hook() { static Hook h; return h; }
#undef rChangeCb
#define rChangeCb if (ga::hook().fn) ga::hook().fn(data.loc)

struct Sub {
  int si = 0; float sf = 0; bool st = false; int so = 0; char ss[16] = {0}; int sa[12] = {0}; bool on = true; int sj = 0; bool sv[3] = {false, false, false};
  static pt::PortsProxy ports;
};
inline pt::PortsProxy Sub::ports;
struct Root {
  int preset = 0; int ri = 0, rj = 0; float rf = 0; bool rt = false; int ro = 0; char rc = 0; char rs[200] = {0}; int ra[12] = {0}; float rfa[4] = {0, 0, 0, 0}; bool en = true; bool vp[3] = {false, false, false}; int32_t rb[8] = {0}; bool rta[4] = {false, false, false, false};
  Sub sub; Sub *psub = nullptr; Sub subs[3];
};

enum Field { PRESET, RI, RJ, RF, RT, RO, RC, RS, RA, RFA, EN, VP, RB, RTA, NROOT, SI = 20, SF, ST, SO, SS, SA, ON, SJ, SV, NSUBEND };
enum VKind { K_INT, K_FLOAT, K_BOOL, K_OPT, K_CHAR, K_STR, K_AINT, K_AFLOAT, K_ABOOL, K_BLOBI, K_ATOG };   // K_ABOOL: 'vp#3/on' (array index in the middle of the name)
inline VKind kind_of(int f) {
  switch (f) {
    case PRESET: case RI: case RJ: case SI: case SJ: return K_INT;
    case RF: case SF: return K_FLOAT;
    case RT: case EN: case ST: case ON: return K_BOOL;
    case RO: case SO: return K_OPT;
    case RC: return K_CHAR;
    case RS: case SS: return K_STR;
    case RA: case SA: return K_AINT;
    case VP: case SV: return K_ABOOL;
    case RTA: return K_ATOG;   // "rta#4::T:F": a toggle array with the index at the end (saved as one array line)
    case RB: return K_BLOBI;   // "rb::b" with rBlobType(i): 8 ints exchanged as one blob, saved as an array
    default: return K_AFLOAT;
  }
}
// per-case naming / mounting mode (set from the AppSpec at the start of every run and by AppSpec::describe):
// short_names: the ports other ports refer to have one-letter names (preset->q, ri->i, rt->t, en->e);
// nested: the whole application is mounted one level down ("/top/..."), so that its sub-trees sit at depth 2
struct Mode { bool short_names = false, nested = false; };
inline Mode &mode() { static Mode m; return m; }
inline std::string top() { return mode().nested ? "/top" : ""; }
inline const char *name_of(int f) {
  if (mode().short_names) { if (f == 0) return "q"; if (f == 1) return "i"; if (f == 4) return "t"; if (f == 10) return "e"; }
  static const char *r[] = {"preset", "ri", "rj", "rf", "rt", "ro", "rc", "rs", "ra", "rfa", "en", "vp", "rb", "rta"};
  static const char *s[] = {"si", "sf", "st", "so", "ss", "sa", "on", "sj", "sv"};
  return f < NROOT ? r[f] : s[f - SI];
}
inline const char *spec_of(int f) {
  switch (kind_of(f)) {
    case K_INT: return "::i"; case K_FLOAT: return "::f"; case K_BOOL: return "::T:F"; case K_OPT: return "::i:c:S"; case K_CHAR: return "::c";
    case K_STR: return "::s"; case K_AINT: return "#12::i"; case K_ABOOL: return "#3/on::T:F"; case K_BLOBI: return "::b"; case K_ATOG: return "#4::T:F"; default: return "#4::f";
  }
}

struct Val {
  int64_t i = 0;          // int, bool, option index, char
  double f = 0;           // float (exactly representable as float)
  std::string s;
  std::vector<int64_t> ai;
  std::vector<double> af;
  template <class A> void io(A &a) { a(i)(f)(s)(ai)(af); }
  bool eq(const Val &o, VKind k) const {
    switch (k) {
      case K_FLOAT: return (float)f == (float)o.f;
      case K_STR: return s == o.s;
      case K_AINT: case K_ABOOL: case K_BLOBI: case K_ATOG: return ai == o.ai;
      case K_AFLOAT: { if (af.size() != o.af.size()) return false; for (size_t k2 = 0; k2 < af.size(); k2++) if ((float)af[k2] != (float)o.af[k2]) return false; return true; }
      default: return i == o.i;
    }
  }
  std::string show(VKind k) const {
    char b[64];
    switch (k) {
      case K_FLOAT: snprintf(b, sizeof b, "%g", f); return b;
      case K_STR: return "\"" + vf::esc(s) + "\"";
      case K_AINT: case K_ABOOL: case K_BLOBI: case K_ATOG: { std::string o = "["; for (auto x : ai) o += std::to_string(x) + " "; return o + "]"; }
      case K_AFLOAT: { std::string o = "["; for (auto x : af) { snprintf(b, sizeof b, "%g ", x); o += b; } return o + "]"; }
      default: return std::to_string(i);
    }
  }
};

struct PSpec {
  int field = 0;
  bool has_default = true;
  bool depends = false;            // default depends on "preset" (root ports only)
  std::vector<Val> dflt;           // [0]: plain default / fallback; [1..3]: presets 0..2 (if depends and has_preset[k])
  std::vector<int> has_preset;     // size 3 (0/1)
  int mn = 0, mx = 0; bool has_range = false;
  std::vector<std::string> opts;
  int depends_on = -1;             // rDepends(<field>): the application resets this parameter when that one changes
  int depends_on2 = -1;            // a second port in the same rDepends list
  // format note: a field id >= 1000 marks records that carry depends_on, >= 2000 also depends_on2 (older case files do not)
  template <class A> void io(A &a) {
    int f = field + 2000;
    a(f);
    bool ext = f >= 1000, ext2 = f >= 2000;
    field = f % 1000;
    a(has_default)(depends)(dflt)(has_preset)(mn)(mx)(has_range)(opts);
    if (ext) a(depends_on); else depends_on = -1;
    if (ext2) a(depends_on2); else depends_on2 = -1;
  }
  const Val &default_for(int preset) const {
    if (depends && preset >= 0 && preset < 3 && has_preset[(size_t)preset]) return dflt[(size_t)preset + 1];
    return dflt[0];
  }
};
struct AppSpec {
  std::vector<PSpec> root, sub;
  bool has_sub = true, has_psub = false, has_subs = false, psub_null = false;
  bool sub_en_by = false, psub_en_by = false, subs_en_by = false;   // rRecur*(x, rEnabledBy(en)) with 'en' as sibling
  bool self_on = false;                                             // rSelf(Sub, rEnabledBy(on)) in the sub table
  bool ptr_port = false;                                            // the "sub:" pointer port of rRecur
  bool short_names = false, nested = false;                         // see Mode
  // format note: short_names / nested travel in bit 1 of the has_sub / has_psub integers (older case files hold 0/1 there)
  template <class A> void io(A &a) {
    int hs = (has_sub ? 1 : 0) + (short_names ? 2 : 0), hp = (has_psub ? 1 : 0) + (nested ? 2 : 0);
    a(root)(sub)(hs)(hp)(has_subs)(psub_null)(sub_en_by)(psub_en_by)(subs_en_by)(self_on)(ptr_port);
    has_sub = hs & 1; short_names = (hs & 2) != 0; has_psub = hp & 1; nested = (hp & 2) != 0;
  }
  void set_mode() const { mode().short_names = short_names; mode().nested = nested; }
  const PSpec *find(const std::vector<PSpec> &v, int f) const { for (auto &p : v) if (p.field == f) return &p; return nullptr; }
  std::string describe() const {
    set_mode();
    std::string d = std::string(nested ? "mounted at /top " : "") + "root{";
    auto one = [&](const PSpec &p) {
      std::string s = std::string(name_of(p.field)) + spec_of(p.field);
      if (p.has_range) s += "[" + std::to_string(p.mn) + ".." + std::to_string(p.mx) + "]";
      if (p.depends_on >= 0) s += std::string("(depends ") + name_of(p.depends_on) + (p.depends_on2 >= 0 ? std::string(",") + name_of(p.depends_on2) : std::string()) + ")";
      if (!p.has_default) s += "(no default)";
      else { s += "=" + p.dflt[0].show(kind_of(p.field)); if (p.depends) for (int k = 0; k < 3; k++) if (p.has_preset[(size_t)k]) s += "|p" + std::to_string(k) + "=" + p.dflt[(size_t)k + 1].show(kind_of(p.field)); }
      return s + " ";
    };
    for (auto &p : root) d += one(p);
    if (has_sub) d += std::string("sub/") + (sub_en_by ? "(by en) " : " ");
    if (has_psub) d += std::string("psub/") + (psub_null ? "(null)" : "") + (psub_en_by ? "(by en) " : " ");
    if (has_subs) d += std::string("subs#3/") + (subs_en_by ? "(by en) " : " ");
    d += "} sub{";
    for (auto &p : sub) d += one(p);
    if (self_on) d += "self(by on) ";
    return d + "}";
  }
};

// ---- spelling of a default value in the port's reply type
inline std::string pretty_str(const std::string &s) {
  std::string o = "\"";
  for (char c : s) {
    switch (c) {
      case '"': o += "\\\""; break; case '\\': o += "\\\\"; break; case '\n': o += "\\n"; break; case '\t': o += "\\t"; break;
      default: o += c;
    }
  }
  return o + "\"";
}
inline std::string spell(const Val &v, const PSpec &p) {
  char b[64];
  switch (kind_of(p.field)) {
    case K_INT: return std::to_string(v.i);
    case K_FLOAT: snprintf(b, sizeof b, "%.3f", v.f); return b;
    case K_BOOL: return v.i ? "true" : "false";
    case K_OPT: return p.opts[(size_t)v.i];
    case K_CHAR: return std::string("'") + (char)v.i + "'";
    case K_STR: return pretty_str(v.s);
    case K_ABOOL: case K_ATOG: { std::string o = "["; for (size_t k = 0; k < v.ai.size(); k++) o += std::string(k ? " " : "") + (v.ai[k] ? "true" : "false"); return o + "]"; }
    case K_AINT: case K_BLOBI: {
      bool all = true; for (auto x : v.ai) if (x != v.ai[0]) all = false;
      if (all) return "[" + std::to_string(v.ai.size()) + "x" + std::to_string(v.ai[0]) + "]";
      std::string o = "["; for (size_t k = 0; k < v.ai.size(); k++) o += (k ? " " : "") + std::to_string(v.ai[k]); return o + "]";
    }
    default: { std::string o = "["; for (size_t k = 0; k < v.af.size(); k++) { snprintf(b, sizeof b, "%s%.3f", k ? " " : "", v.af[k]); o += b; } return o + "]"; }
  }
}
inline std::string meta_of(const PSpec &p) {
  std::string m;
  auto prop = [&](const std::string &k) { m += ":" + k + std::string(1, '\0'); };
  auto map = [&](const std::string &k, const std::string &v) { m += ":" + k + std::string(1, '\0') + "=" + v + std::string(1, '\0'); };
  prop("parameter");
  if ((p.field + p.mn + (int)p.opts.size()) % 3 == 0) map("shortname", "");   // rShort(""): a property with an empty value in front of everything else
  if (kind_of(p.field) == K_BLOBI) map("blob type", "i");
  if (p.has_range) { map("min", std::to_string(p.mn)); map("max", std::to_string(p.mx)); }
  for (size_t k = 0; k < p.opts.size(); k++) map("map " + std::to_string(k), p.opts[k]);
  if (p.has_default) {
    if (p.depends) {
      map("default depends", name_of(PRESET));
      for (int k = 0; k < 3; k++) if (p.has_preset[(size_t)k]) map("default " + std::to_string(k), spell(p.dflt[(size_t)k + 1], p));
    }
    map("default", spell(p.dflt[0], p));
  }
  if (p.depends_on >= 0) map("depends", std::string(name_of(p.depends_on)) + "," + (p.depends_on2 >= 0 ? std::string(name_of(p.depends_on2)) + "," : std::string()));
  map("documentation", "generated");
  return m;
}

// ---- callbacks
typedef std::function<void(const char *, rtosc::RtData &)> cb_t;
inline cb_t field_cb(int f) {
  switch (f) {
#define rObject ga::Root
    case PRESET: return rParamICb(preset);
    case RI: return rParamICb(ri);
    case RJ: return rParamICb(rj);
    case RF: return rParamFCb(rf);
    case RT: return rToggleCb(rt);
    case RO: return rOptionCb(ro);
    case RC: return rParamCb(rc);
    case RS: return rStringCb(rs, 200);
    case RA: return rArrayICb(ra);
    case RFA: return rArrayFCb(rfa);
    case EN: return rToggleCb(en);
    case VP: return rArrayTCb(vp);
    case RTA: return rArrayTCb(rta);
    case RB: return [](const char *msg, rtosc::RtData &data) {   // blob parameter: query replies the 32 bytes; a blob sets its leading elements (savefiles omit trailing elements that equal the default)
      ga::Root *obj = (ga::Root *)data.obj;
      const char *args = rtosc_argument_string(msg);
      if (!*args) data.reply(data.loc, "b", (int)sizeof obj->rb, obj->rb);
      else if (!strcmp(args, "b")) {
        rtosc_blob_t b = rtosc_argument(msg, 0).b;
        if (b.len >= 0 && b.len <= (int32_t)sizeof obj->rb && b.len % 4 == 0) { memcpy(obj->rb, b.data, (size_t)b.len); data.broadcast(data.loc, "b", b.len, b.data); }
      }
    };
#undef rObject
#define rObject ga::Sub
    case SI: return rParamICb(si);
    case SJ: return rParamICb(sj);
    case SF: return rParamFCb(sf);
    case ST: return rToggleCb(st);
    case SO: return rOptionCb(so);
    case SS: return rStringCb(ss, 16);
    case SA: return rArrayICb(sa);
    case SV: return rArrayTCb(sv);
    default: return rToggleCb(on);
#undef rObject
  }
}
#define rObject ga::Root
inline cb_t cb_sub() { return rRecurCb(sub); }
inline cb_t cb_subptr() { return rRecurPtrCb(sub); }
inline cb_t cb_psub() { return rRecurpCb(psub); }
inline cb_t cb_subs() { return rRecursCb(subs, 3); }
#undef rObject
inline cb_t cb_self() { return [](const char *, rtosc::RtData &d) { d.reply(d.loc, "b", sizeof(d.obj), &d.obj); }; }

// ---- field access on the real objects
inline Val get_root(const Root &r, int f) {
  Val v;
  switch (f) {
    case PRESET: v.i = r.preset; break; case RI: v.i = r.ri; break; case RJ: v.i = r.rj; break; case RF: v.f = r.rf; break; case RT: v.i = r.rt; break; case RO: v.i = r.ro; break;
    case RC: v.i = r.rc; break; case RS: v.s = r.rs; break; case RA: v.ai.assign(r.ra, r.ra + 12); break; case RFA: v.af.assign(r.rfa, r.rfa + 4); break; case EN: v.i = r.en; break; case VP: for (int k = 0; k < 3; k++) v.ai.push_back(r.vp[k]); break; case RB: v.ai.assign(r.rb, r.rb + 8); break; case RTA: for (int k = 0; k < 4; k++) v.ai.push_back(r.rta[k]); break;
  }
  return v;
}
inline void set_root(Root &r, int f, const Val &v) {
  switch (f) {
    case PRESET: r.preset = (int)v.i; break; case RI: r.ri = (int)v.i; break; case RJ: r.rj = (int)v.i; break; case RF: r.rf = (float)v.f; break; case RT: r.rt = v.i != 0; break; case RO: r.ro = (int)v.i; break;
    case RC: r.rc = (char)v.i; break; case RS: memset(r.rs, 0, 200); memcpy(r.rs, v.s.data(), std::min<size_t>(199, v.s.size())); break;
    case RA: for (size_t k = 0; k < 12; k++) r.ra[k] = k < v.ai.size() ? (int)v.ai[k] : 0; break; case RFA: for (int k = 0; k < 4; k++) r.rfa[k] = (float)v.af[(size_t)k]; break; case EN: r.en = v.i != 0; break; case VP: for (size_t k = 0; k < 3 && k < v.ai.size(); k++) r.vp[k] = v.ai[k] != 0; break; case RB: for (size_t k = 0; k < 8; k++) r.rb[k] = k < v.ai.size() ? (int32_t)v.ai[k] : 0; break; case RTA: for (size_t k = 0; k < 4; k++) r.rta[k] = k < v.ai.size() && v.ai[k] != 0; break;
  }
}
inline Val get_sub(const Sub &s, int f) {
  Val v;
  switch (f) {
    case SI: v.i = s.si; break; case SJ: v.i = s.sj; break; case SF: v.f = s.sf; break; case ST: v.i = s.st; break; case SO: v.i = s.so; break; case SS: v.s = s.ss; break;
    case SA: v.ai.assign(s.sa, s.sa + 12); break; case SV: for (int k = 0; k < 3; k++) v.ai.push_back(s.sv[k]); break; default: v.i = s.on; break;
  }
  return v;
}
inline void set_sub(Sub &s, int f, const Val &v) {
  switch (f) {
    case SI: s.si = (int)v.i; break; case SJ: s.sj = (int)v.i; break; case SF: s.sf = (float)v.f; break; case ST: s.st = v.i != 0; break; case SO: s.so = (int)v.i; break;
    case SS: memset(s.ss, 0, 16); memcpy(s.ss, v.s.data(), std::min<size_t>(15, v.s.size())); break;
    case SA: for (size_t k = 0; k < 12; k++) s.sa[k] = k < v.ai.size() ? (int)v.ai[k] : 0; break; case SV: for (size_t k = 0; k < 3 && k < v.ai.size(); k++) s.sv[k] = v.ai[k] != 0; break; default: s.on = v.i != 0; break;
  }
}

// ---- an instance of the generated application
struct App {
  AppSpec spec;
  std::vector<std::unique_ptr<char[]>> blocks;
  std::vector<std::string> names;
  std::unique_ptr<pt::DynPorts> subports, rootports, outerports;
  rtosc::Ports &saveroot() { return spec.nested ? *outerports : *rootports; }   // what savefiles, loads and messages address
  Root root;
  Sub psub_obj;
  const char *add_block(const std::string &m) {
    blocks.emplace_back(new char[m.size() + 1]);
    memcpy(blocks.back().get(), m.data(), m.size());
    blocks.back().get()[m.size()] = 0;
    return blocks.back().get();
  }
  static std::string en_by(const char *who) { return std::string(":shortname") + std::string(1, '\0') + "=" + std::string(1, '\0') + ":enabled by" + std::string(1, '\0') + "=" + who + std::string(1, '\0'); }   // rShort("") in front
  explicit App(const AppSpec &s) : spec(s) {
    spec.set_mode();
    // case files written when the int arrays had 4 or 8 elements: extend their defaults to 12 by repeating the last one
    for (auto *v : {&spec.root, &spec.sub})
      for (auto &p : *v)
        if (kind_of(p.field) == K_AINT)
          for (auto &d : p.dflt) while (!d.ai.empty() && d.ai.size() < 12) d.ai.push_back(d.ai.back());
    names.reserve(64);
    std::vector<rtosc::Port> sv, rv;
    for (auto &p : spec.sub) { names.push_back(std::string(name_of(p.field)) + spec_of(p.field)); sv.push_back(rtosc::Port{names.back().c_str(), add_block(meta_of(p)), nullptr, field_cb(p.field)}); }
    if (spec.self_on) sv.push_back(rtosc::Port{"self:", add_block(std::string(":internal") + std::string(1, '\0') + en_by("on") + ":documentation" + std::string(1, '\0') + "=self" + std::string(1, '\0')), nullptr, cb_self()});
    subports.reset(new pt::DynPorts(sv));
    Sub::ports.p = subports.get();
    for (auto &p : spec.root) { names.push_back(std::string(name_of(p.field)) + spec_of(p.field)); rv.push_back(rtosc::Port{names.back().c_str(), add_block(meta_of(p)), nullptr, field_cb(p.field)}); }
    std::string doc = std::string(":documentation") + std::string(1, '\0') + "=sub-tree" + std::string(1, '\0');
    if (spec.has_sub) {
      rv.push_back(rtosc::Port{"sub/", add_block((spec.sub_en_by ? en_by(name_of(EN)) : std::string()) + doc), subports.get(), cb_sub()});
      if (spec.ptr_port) rv.push_back(rtosc::Port{"sub:", add_block(std::string(":internal") + std::string(1, '\0') + doc), nullptr, cb_subptr()});
    }
    if (spec.has_psub) rv.push_back(rtosc::Port{"psub/", add_block((spec.psub_en_by ? en_by(name_of(EN)) : std::string()) + doc), subports.get(), cb_psub()});
    if (spec.has_subs) rv.push_back(rtosc::Port{"subs#3/", add_block((spec.subs_en_by ? en_by(name_of(EN)) : std::string()) + doc), subports.get(), cb_subs()});
    rootports.reset(new pt::DynPorts(rv));
    if (spec.nested) {
      pt::DynPorts *inner = rootports.get();
      std::vector<rtosc::Port> ov;
      ov.push_back(rtosc::Port{"top/", add_block(doc), inner, [inner](const char *m, rtosc::RtData &d) {
        while (*m && *m != '/') ++m;
        if (*m) ++m;
        inner->dispatch(m, d);
      }});
      outerports.reset(new pt::DynPorts(ov));
    }
    if (spec.has_psub && !spec.psub_null) root.psub = &psub_obj;
    reset_to_defaults();
  }
  void attach() { Sub::ports.p = subports.get(); }
  std::vector<Sub *> subs() { std::vector<Sub *> v; if (spec.has_sub) v.push_back(&root.sub); if (spec.has_psub && root.psub) v.push_back(root.psub); if (spec.has_subs) for (int k = 0; k < 3; k++) v.push_back(&root.subs[k]); return v; }
  std::vector<std::string> sub_prefixes() { std::vector<std::string> v; if (spec.has_sub) v.push_back(top() + "/sub/"); if (spec.has_psub && root.psub) v.push_back(top() + "/psub/"); if (spec.has_subs) for (int k = 0; k < 3; k++) v.push_back(top() + "/subs" + std::to_string(k) + "/"); return v; }
  // a freshly default-initialised instance: every parameter with a default holds it (preset default first)
  void reset_to_defaults() {
    const PSpec *pp = spec.find(spec.root, PRESET);
    if (pp && pp->has_default) root.preset = (int)pp->dflt[0].i;
    for (auto &p : spec.root) if (p.has_default && p.field != PRESET) set_root(root, p.field, p.default_for(root.preset));
    for (Sub *s : subs()) for (auto &p : spec.sub) if (p.has_default) set_sub(*s, p.field, p.dflt[0]);
  }
  // back to the state of a newly constructed instance (same objects, same port tables)
  void reset_all() {
    root = Root();
    psub_obj = Sub();
    if (spec.has_psub && !spec.psub_null) root.psub = &psub_obj;
    reset_to_defaults();
  }
  // application semantics: a new preset resets every parameter whose default depends on it
  // and a parameter that declares rDepends(x) is reset when x changes (transitively)
  void on_changed(const char *loc_) {
    std::string t = top();
    if (!t.empty() && !strncmp(loc_, t.c_str(), t.size())) loc_ += t.size();
    const std::string l = loc_;
    auto is = [&](int f) { return l == std::string("/") + name_of(f); };
    bool ri_changed = is(RI);
    if (is(PRESET))
      for (auto &p : spec.root) if (p.has_default && p.depends) { set_root(root, p.field, p.default_for(root.preset)); if (p.field == RI) ri_changed = true; }
    if (ri_changed)
      for (auto &p : spec.root) if (p.has_default && p.depends_on == RI) set_root(root, p.field, p.default_for(root.preset));
    if (is(RT))
      for (auto &p : spec.root) if (p.has_default && p.depends_on2 == RT) set_root(root, p.field, p.default_for(root.preset));
    // switching 'en' re-initialises the sub-trees it enables (rRecur*(x, rEnabledBy(en))): their parameters return to the defaults
    if (is(EN)) {
      std::vector<Sub *> ss = subs();
      std::vector<std::string> pre = sub_prefixes();
      for (auto &q : pre) q = q.substr(t.size());
      for (size_t k = 0; k < ss.size(); k++) {
        bool by_en = (pre[k] == "/sub/" && spec.sub_en_by) || (pre[k] == "/psub/" && spec.psub_en_by) || (pre[k].compare(0, 5, "/subs") == 0 && spec.subs_en_by);
        if (!by_en) continue;
        for (auto &p : spec.sub) if (p.has_default && p.field != ON) set_sub(*ss[k], p.field, p.dflt[0]);
      }
    }
  }
  void dispatch(const std::string &msg) {
    attach();
    hook().fn = [this](const char *loc) { on_changed(loc); };
    std::vector<char> b(msg.size() + 64, 0);
    memcpy(b.data(), msg.data(), msg.size());
    char loc[256];
    memset(loc, 0, sizeof loc);
    rtosc::RtData d;
    d.obj = &root; d.loc = loc; d.loc_size = sizeof loc;
    saveroot().dispatch(b.data(), d, true);
    hook().fn = nullptr;
  }
};

// ---- generator
inline Val gen_val(int f, const PSpec &p) {
  Val v;
  switch (kind_of(f)) {
    case K_INT: v.i = p.has_range ? vf::pick<int>(p.mn, p.mx) : vf::pick<int>(-1000, 1000); if (vf::chance(10) && p.has_range) v.i = vf::coin() ? p.mn : p.mx; break;
    case K_FLOAT: v.f = (double)(p.has_range ? vf::pick<int>(p.mn * 4, p.mx * 4) : vf::pick<int>(-400, 400)) / 4.0; break;
    case K_BOOL: v.i = vf::coin(); break;
    case K_OPT: v.i = vf::pickn((int)p.opts.size()); break;
    case K_CHAR:
      v.i = vf::chance(85) ? vf::pick<int>(33, 126) : vf::pick<int>(0, 127);
      if (v.i == 0 && vf::known("char-nul")) { vf::G().ctx.count("excluded.char-nul"); v.i = 1; }
      break;
    case K_STR: {
      static const std::string AL = "abcXYZ 09\"\\%\n\t/[]#.'";
      int n = vf::sized<int>(0, 15);
      if (f == RS && vf::chance(25)) n = vf::pick<int>(60, 190);   // long enough for the savefile to wrap the line (escapes then land on every column)
      for (int k = 0; k < n; k++) v.s += vf::chance(70) ? (char)vf::pick<int>('a', 'z') : AL[(size_t)vf::pickn((int)AL.size())];
      break;
    }
    case K_AINT: {
      // 12 elements: long constant runs and arithmetic progressions are frequent (they are saved as compressed ranges),
      // also two runs next to each other
      int lo = p.has_range ? p.mn : -100, hi = p.has_range ? p.mx : 100;
      int base = vf::pick<int>(lo, hi), style = vf::pickn(6);
      int cut = vf::pick<int>(5, 7), base2 = vf::pick<int>(lo, hi), st1 = vf::oneof<int>({0, 0, 1, -1, 2}), st2 = vf::oneof<int>({1, 1, -1, -1, 0, 3});
      for (int k = 0; k < 12; k++) {
        int x;
        if (style == 0) x = base;
        else if (style == 1) x = vf::chance(80) ? base : vf::pick<int>(lo, hi);
        else if (style == 2) x = base + k;
        else if (style >= 4) x = k < cut ? base + st1 * k : base2 + st2 * (k - cut);
        else x = vf::pick<int>(lo, hi);
        if (x > hi) x = hi;
        if (x < lo) x = lo;
        v.ai.push_back(x);
      }
      break;
    }
    case K_ABOOL: for (int k = 0; k < 3; k++) v.ai.push_back(vf::coin()); break;
    case K_ATOG: { int st = vf::pickn(4); for (int k = 0; k < 4; k++) v.ai.push_back(st == 0 ? 0 : st == 1 ? 1 : st == 2 ? (k == 0) : (int)vf::coin()); break; }   // all false, all true, [true false false false], mixed
    case K_BLOBI: {
      int base = vf::pick<int>(-100, 100), style = vf::pickn(5), cut = vf::pick<int>(2, 6), base2 = vf::pick<int>(-100, 100), st = vf::oneof<int>({1, -1, 2, 0});
      for (int k = 0; k < 8; k++) v.ai.push_back(style == 0 ? base : style == 1 ? base + st * k : style == 2 ? (k < cut ? base : base2 + st * (k - cut)) : style == 3 ? (vf::chance(70) ? base : vf::pick<int>(-100, 100)) : vf::pick<int>(-1000, 1000));
      break;
    }
    default: for (int k = 0; k < 4; k++) v.af.push_back((double)vf::pick<int>(-40, 40) / 4.0); break;
  }
  return v;
}
inline Val gen_default(int f, const PSpec &p) {
  Val v = gen_val(f, p);
  if (kind_of(f) == K_CHAR) v.i = vf::pick<int>(33, 126) == '\'' ? 'x' : vf::pick<int>(40, 122);   // a printable char literal
  if (kind_of(f) == K_CHAR && (v.i == '\\' || v.i == '\'')) v.i = 'q';
  return v;
}
inline PSpec gen_pspec(int f, bool may_depend) {
  PSpec p;
  p.field = f;
  VKind k = kind_of(f);
  if (k == K_OPT) { static const char *SY[2][5] = {{"sine", "saw", "square", "tri", "noise"}, {"ch1", "ch10", "ch11", "ch2", "ch"}}; int set = vf::pickn(2); int n = vf::pick<int>(2, 5); for (int i = 0; i < n; i++) p.opts.push_back(SY[set][i]); }
  if (k == K_INT || k == K_FLOAT || k == K_AINT) { p.has_range = vf::chance(70); p.mn = vf::pick<int>(-100, 50); p.mx = p.mn + vf::pick<int>(1, 120); }
  // char-backed array elements narrow to char before clamping: keep their range inside char
  if (k == K_AINT) { p.has_range = true; p.mn = vf::pick<int>(-100, 50); p.mx = std::min(127, p.mn + vf::pick<int>(1, 100)); }
  if (k == K_CHAR) { p.has_range = true; p.mn = 0; p.mx = 127; }
  p.has_default = vf::chance(85);
  p.depends = may_depend && p.has_default && vf::chance(40);
  p.has_preset.assign(3, 0);
  p.dflt.push_back(gen_default(f, p));
  for (int i = 0; i < 3; i++) { p.has_preset[(size_t)i] = (p.depends && vf::chance(70)) ? 1 : 0; p.dflt.push_back(gen_default(f, p)); }
  return p;
}
inline AppSpec gen_spec() {
  AppSpec s;
  s.short_names = vf::chance(20);
  s.nested = vf::chance(30);
  s.set_mode();
  const bool rich = vf::chance(8);   // an application with every kind of parameter and every kind of sub-tree (savefiles of 40..70 lines)
  auto maybe = [&](int pct) { return rich || vf::chance(pct); };
  bool presets = maybe(60);
  if (presets) { PSpec p; p.field = PRESET; p.has_range = true; p.mn = 0; p.mx = 2; p.has_default = true; p.has_preset.assign(3, 0); Val d; d.i = vf::pickn(3); p.dflt.assign(4, d); s.root.push_back(p); }
  for (int f = RI; f < EN; f++) if (maybe(55)) s.root.push_back(gen_pspec(f, presets));
  if (maybe(s.nested ? 60 : 35)) s.root.push_back(gen_pspec(VP, false));
  if (maybe(30)) s.root.push_back(gen_pspec(RB, presets));
  if (maybe(35)) s.root.push_back(gen_pspec(RTA, presets));
  s.has_sub = maybe(75); s.has_psub = maybe(40); s.has_subs = maybe(40); s.psub_null = !rich && vf::chance(40);
  bool en = (s.has_sub || s.has_psub || s.has_subs) && vf::chance(50);
  if (en) {
    PSpec p; p.field = EN; p.has_default = true; p.has_preset.assign(3, 0); Val d; d.i = vf::chance(70); p.dflt.assign(4, d);
    s.root.insert(s.root.begin() + vf::pickn((int)s.root.size() + 1), p);
    s.sub_en_by = s.has_sub && vf::chance(70); s.psub_en_by = s.has_psub && vf::chance(50); s.subs_en_by = s.has_subs && vf::chance(50);
  }
  for (int f = SI; f < ON; f++) if (maybe(60)) s.sub.push_back(gen_pspec(f, false));
  if (maybe(40)) s.sub.push_back(gen_pspec(SJ, false));
  if (maybe(30)) s.sub.push_back(gen_pspec(SV, false));   // 'sv#3/on' inside the sub-trees: a name spanning two components below an enabled-by level
  s.self_on = vf::chance(35);
  if (s.self_on) { PSpec p; p.field = ON; p.has_default = true; p.has_preset.assign(3, 0); Val d; d.i = vf::chance(75); p.dflt.assign(4, d); s.sub.insert(s.sub.begin() + vf::pickn((int)s.sub.size() + 1), p); }
  s.ptr_port = s.has_sub && vf::chance(40);
  { bool has_ri = false, has_rt = false;
    for (auto &p : s.root) { if (p.field == RI) has_ri = true; if (p.field == RT) has_rt = true; }
    // several parameters may declare rDepends(ri[, rt]): ri in turn may depend on the preset, rt on nothing
    for (auto &p : s.root)
      if (has_ri && p.field != RI && p.field != PRESET && p.field != RT && p.field != EN && vf::chance(p.field == RJ ? 60 : p.field == VP ? 55 : 25)) { p.depends_on = RI; if (has_rt && vf::chance(p.field == VP ? 75 : 50)) p.depends_on2 = RT; } }   // the two-component port more often, and more often with the second entry
  // random order of the root parameter ports (the preset port may come after its dependants)
  for (size_t i = s.root.size(); i > 1; i--) std::swap(s.root[i - 1], s.root[(size_t)vf::pickn((int)i)]);
  return s;
}

// index for array-valued fields (-1 for scalars)
inline int gen_idx(int field) { switch (kind_of(field)) { case K_AINT: return vf::pickn(12); case K_AFLOAT: return vf::pickn(4); case K_ABOOL: return vf::pickn(3); case K_ATOG: return vf::pickn(4); default: return -1; } }
// ---- one parameter message
struct Set {
  int target = 0;   // 0 root, 1 sub, 2 psub, 3.. subs[target-3]
  int field = 0;
  Val v;
  int idx = -1;     // arrays: element addressed (one element per message)
  bool by_symbol = false;
  template <class A> void io(A &a) { a(target)(field)(v)(idx)(by_symbol); }
};
inline std::string prefix_of(int target) { return top() + (target == 0 ? "/" : target == 1 ? "/sub/" : target == 2 ? "/psub/" : "/subs" + std::to_string(target - 3) + "/"); }
inline std::string encode_set(const Set &s, const PSpec &p) {
  std::string addr = prefix_of(s.target) + name_of(s.field);
  refosc::Val a;
  std::string tags;
  switch (kind_of(s.field)) {
    case K_INT: tags = "i"; a.t = 'i'; a.u = (uint32_t)(int32_t)s.v.i; break;
    case K_FLOAT: { tags = "f"; a.t = 'f'; float f = (float)s.v.f; uint32_t u; memcpy(&u, &f, 4); a.u = u; break; }
    case K_BOOL: tags = s.v.i ? "T" : "F"; a.t = tags[0]; break;
    case K_OPT: if (s.by_symbol) { tags = "S"; a.t = 'S'; a.s = p.opts[(size_t)s.v.i]; } else { tags = "i"; a.t = 'i'; a.u = (uint32_t)s.v.i; } break;
    case K_CHAR: tags = "c"; a.t = 'c'; a.u = (uint32_t)s.v.i; break;
    case K_STR: tags = "s"; a.t = 's'; a.s = s.v.s; break;
    case K_ABOOL: addr += std::to_string(s.idx) + "/on"; tags = s.v.ai[(size_t)s.idx] ? "T" : "F"; a.t = tags[0]; break;
    case K_ATOG: addr += std::to_string(s.idx); tags = s.v.ai[(size_t)s.idx] ? "T" : "F"; a.t = tags[0]; break;
    case K_BLOBI: { tags = "b"; a.t = 'b'; for (size_t k = 0; k < 8; k++) { int32_t x = k < s.v.ai.size() ? (int32_t)s.v.ai[k] : 0; a.s.append((const char *)&x, 4); } break; }
    case K_AINT: addr += std::to_string(s.idx); tags = "i"; a.t = 'i'; a.u = (uint32_t)(int32_t)s.v.ai[(size_t)s.idx]; break;
    default: { addr += std::to_string(s.idx); tags = "f"; a.t = 'f'; float f = (float)s.v.af[(size_t)s.idx]; uint32_t u; memcpy(&u, &f, 4); a.u = u; break; }
  }
  return refosc::encode(addr, tags, {a});
}


// ---- shared by C12 and C13
inline std::vector<Set> gen_history(const AppSpec &spec, int maxlen) {
  std::vector<Set> h;
  int n = vf::sized<int>(0, maxlen);
  std::vector<int> targets = {0};
  if (spec.has_sub) targets.push_back(1);
  if (spec.has_psub && !spec.psub_null) targets.push_back(2);
  if (spec.has_subs) { targets.push_back(3); targets.push_back(4); targets.push_back(5); }
  if (maxlen >= 10 && vf::chance(spec.root.size() >= 11 ? 70 : 8)) {
    // a wide history: every parameter of every object is set once (savefiles of 30..70 lines)
    for (int t : targets)
      for (auto &p : (t == 0 ? spec.root : spec.sub)) {
        Set s; s.target = t; s.field = p.field; s.v = gen_val(p.field, p); s.idx = gen_idx(p.field); s.by_symbol = vf::coin();
        h.push_back(s);
        if (kind_of(p.field) == K_ABOOL) for (int k = 0; k < 3; k++) { s.idx = k; h.push_back(s); }   // every element is a line of its own
      }
    for (size_t i = h.size(); i > 1; i--) std::swap(h[i - 1], h[(size_t)vf::pickn((int)i)]);
  }
  for (int i = 0; i < n; i++) {
    Set s;
    s.target = targets[(size_t)vf::pickn((int)targets.size())];
    const std::vector<PSpec> &ps = s.target == 0 ? spec.root : spec.sub;
    if (ps.empty()) continue;
    const PSpec &p = ps[(size_t)vf::pickn((int)ps.size())];
    s.field = p.field;
    s.v = vf::chance(25) && p.has_default ? p.dflt[(size_t)vf::pickn(4)] : gen_val(p.field, p);   // sometimes exactly a default
    s.idx = gen_idx(p.field);
    s.by_symbol = vf::coin();
    h.push_back(s);
  }
  return h;
}
// apply a message to the model (field values only; same semantics as the application)
inline void model_apply(App &m, const Set &s) {
  if (s.target == 0) {
    Val cur = get_root(m.root, s.field);
    if (s.idx >= 0) { if (kind_of(s.field) == K_AINT || kind_of(s.field) == K_ABOOL || kind_of(s.field) == K_ATOG) cur.ai[(size_t)s.idx] = s.v.ai[(size_t)s.idx]; else cur.af[(size_t)s.idx] = s.v.af[(size_t)s.idx]; }
    else cur = s.v;
    bool rt_changes = s.field == RT && get_root(m.root, RT).i != cur.i;
    bool en_changes = s.field == EN && get_root(m.root, EN).i != cur.i;
    set_root(m.root, s.field, cur);
    if (s.field == PRESET) m.on_changed((std::string("/") + name_of(PRESET)).c_str());
    if (s.field == RI) m.on_changed((std::string("/") + name_of(RI)).c_str());
    if (rt_changes) m.on_changed((std::string("/") + name_of(RT)).c_str());
    if (en_changes) m.on_changed((std::string("/") + name_of(EN)).c_str());
  } else {
    Sub *sub = s.target == 1 ? &m.root.sub : s.target == 2 ? m.root.psub : &m.root.subs[s.target - 3];
    if (!sub) return;
    Val cur = get_sub(*sub, s.field);
    if (s.idx >= 0) cur.ai[(size_t)s.idx] = s.v.ai[(size_t)s.idx]; else cur = s.v;
    set_sub(*sub, s.field, cur);
  }
}
// only_saved_scope: skip ports without default and everything below disabled sub-trees (documented omissions)
inline std::string compare(App &a, App &b, bool only_saved_scope, const char *what) {
  for (auto &p : a.spec.root) {
    if (only_saved_scope && !p.has_default) continue;
    if (!get_root(a.root, p.field).eq(get_root(b.root, p.field), kind_of(p.field)))
      return std::string(what) + ": " + top() + "/" + name_of(p.field) + " is " + get_root(a.root, p.field).show(kind_of(p.field)) + ", expected " + get_root(b.root, p.field).show(kind_of(p.field));
  }
  std::vector<Sub *> sa = a.subs(), sb = b.subs();
  std::vector<std::string> pre = a.sub_prefixes();
  for (size_t k = 0; k < sa.size(); k++) {
    const std::string q = pre[k].substr(top().size());
    bool by_en = (q == "/sub/" && a.spec.sub_en_by) || (q == "/psub/" && a.spec.psub_en_by) || (q.compare(0, 5, "/subs") == 0 && a.spec.subs_en_by);
    bool disabled = (by_en && !b.root.en) || (a.spec.self_on && !sb[k]->on);
    for (auto &p : a.spec.sub) {
      if (only_saved_scope && !p.has_default) continue;
      if (only_saved_scope && disabled && !(p.field == ON && a.spec.self_on && !(by_en && !b.root.en))) continue;
      if (!get_sub(*sa[k], p.field).eq(get_sub(*sb[k], p.field), kind_of(p.field)))
        return std::string(what) + ": " + pre[k] + name_of(p.field) + " is " + get_sub(*sa[k], p.field).show(kind_of(p.field)) + ", expected " + get_sub(*sb[k], p.field).show(kind_of(p.field));
    }
  }
  return "";
}
// messages of a savefile: a line starting with '/' plus its continuation lines
inline std::vector<std::string> split_messages(const std::string &file, std::string &header) {
  std::vector<std::string> m;
  std::istringstream in(file);
  std::string l;
  int hl = 0;
  while (std::getline(in, l)) {
    if (hl < 2) { header += l + "\n"; hl++; continue; }
    if (!l.empty() && l[0] == '/') m.push_back(l);
    else if (!m.empty()) m.back() += "\n" + l;
  }
  return m;
}
inline int load(App &a, const std::string &file, const char *appname = "genapp") {
  a.attach();
  hook().fn = [&a](const char *loc) { a.on_changed(loc); };
  const rtosc_version ver = {1, 2, 3};
  int rv = rtosc::load_from_file(file.c_str(), a.saveroot(), &a.root, appname, ver);
  hook().fn = nullptr;
  return rv;
}
inline std::string save(App &a) {
  a.attach();
  std::set<std::string> written;
  const rtosc_version ver = {1, 2, 3};
  return rtosc::save_to_file(a.saveroot(), &a.root, "genapp", ver, written, {});
}
}  // namespace ga
