// Generator of OSC messages (address, tags, values) shared by C01/C02/C07/C08, and helpers to
// hand a generated message to the three rtosc constructors.
#pragma once
#include "vf.hpp"
#include "refosc.hpp"
#include <rtosc/rtosc.h>
#include <rtosc/arg-val.h>
#include <rtosc/arg-ext.h>
#include <climits>

namespace mg {
using refosc::Val;

struct Msg {
  std::string address, tags;
  std::vector<Val> vals;
  template <class A> void io(A &a) { a(address)(tags)(vals); }
  std::string ref() const { return refosc::encode(address, tags, vals); }
  std::string describe() const {
    std::string d = "addr=\"" + vf::esc(address) + "\" tags=\"" + tags + "\" vals=[";
    for (auto &v : vals) {
      char b[64];
      if (v.t == 's' || v.t == 'S') d += std::string(1, v.t) + ":len" + std::to_string(v.s.size());
      else if (v.t == 'b') d += std::string("b:len") + std::to_string(v.s.size()) + (v.nullblob ? "(NULL)" : "");
      else if (refosc::has_payload(v.t)) { snprintf(b, sizeof b, "%c:0x%llx", v.t, (unsigned long long)v.u); d += b; }
      else d += v.t;
      d += ' ';
    }
    return d + "]";
  }
};

static const char TAGS17[] = "ifsbhtdScrmTFNI[]";
static const char ADDRCH[] = "abcdefghijklmnopqrstuvwxyzABCXYZ0123456789/_-.+!$%&'()=@^~|<>;:\"\\`,#*?[]{} ,,";   // every printable character, the comma more often (it also starts the type tag string)

inline std::string gen_address(int maxlen = 64) {
  int len;
  if (vf::chance(50)) len = vf::pick<int>(1, std::min(maxlen, 12));
  else len = vf::sized<int>(1, maxlen);
  std::string a;
  if (vf::chance(85)) a = "/";
  while ((int)a.size() < len) a += ADDRCH[vf::pickn((int)sizeof(ADDRCH) - 1)];
  return a;
}

inline std::string gen_text(int maxlen, bool for_address_like = false) {
  // lengths hitting every residue mod 4 incl. 0 and around 4k
  int len;
  int c = vf::pickn(10);
  if (c < 5) len = vf::pick<int>(0, 9);
  else if (c < 8) len = vf::sized<int>(0, std::min(maxlen, 200));
  else len = vf::pick<int>(std::max(0, std::min(maxlen, 4096) - 5), std::min(maxlen, 4096 + 5));
  std::string s;
  s.reserve((size_t)len);
  bool uniform = len > 64;
  char fill = (char)vf::pick<int>(1, 255);
  for (int i = 0; i < len; i++) s += uniform ? (char)(1 + ((unsigned char)fill + i) % 255) : (char)vf::pick<int>(1, 255);
  (void)for_address_like;
  return s;
}
inline std::string gen_blob(int maxlen) {
  std::string s = gen_text(maxlen);
  // blobs may contain NULs
  if (!s.empty() && vf::coin()) s[(size_t)vf::pickn((int)s.size())] = 0;
  if (s.size() > 2 && vf::coin()) s[s.size() - 1] = 0;
  return s;
}

inline uint64_t gen_i32bits() {
  switch (vf::pickn(8)) {
    case 0: return 0;
    case 1: return 1;
    case 2: return 0xffffffffu;
    case 3: return 0x80000000u;
    case 4: return 0x7fffffffu;
    case 5: return (uint32_t)vf::pick<int>(-300, 300);
    default: return vf::bits32();
  }
}
inline uint64_t gen_i64bits() {
  switch (vf::pickn(8)) {
    case 0: return 0;
    case 1: return 1;
    case 2: return ~0ull;
    case 3: return 1ull << 63;
    case 4: return ~(1ull << 63);
    case 5: return (uint64_t)(int64_t)vf::pick<int>(-300, 300);
    default: return vf::bits64();
  }
}
inline uint64_t gen_f32bits() {
  switch (vf::pickn(8)) {
    case 0: return 0;
    case 1: return 0x80000000u;
    case 2: return 0x7f800000u;           // inf
    case 3: return 0x7fc00000u | (vf::bits32() & 0x3fffff);  // quiet NaN with payload
    case 4: return 0x7f800001u | (vf::bits32() & 0x3fffff);  // signalling NaN
    case 5: { float f = (float)vf::pick<int>(-40, 40) / 4.0f; uint32_t u; memcpy(&u, &f, 4); return u; }
    default: return vf::bits32();
  }
}
inline uint64_t gen_f64bits() {
  switch (vf::pickn(8)) {
    case 0: return 0;
    case 1: return 1ull << 63;
    case 2: return 0x7ff0000000000000ull;
    case 3: return 0x7ff8000000000000ull | (vf::bits64() & 0x7ffffffffffffull);
    case 4: return 0x7ff0000000000001ull | (vf::bits64() & 0x7ffffffffffffull);
    case 5: { double f = (double)vf::pick<int>(-40, 40) / 4.0; uint64_t u; memcpy(&u, &f, 8); return u; }
    default: return vf::bits64();
  }
}

inline Val gen_val(char t, int maxpayload) {
  Val v;
  v.t = t;
  switch (t) {
    case 'i': case 'c': case 'r': case 'm': v.u = gen_i32bits(); break;
    case 'f': v.u = gen_f32bits(); break;
    case 'h': case 't': v.u = gen_i64bits(); break;
    case 'd': v.u = gen_f64bits(); break;
    case 's': case 'S': v.s = gen_text(maxpayload); break;
    case 'b': v.s = gen_blob(maxpayload); v.nullblob = vf::chance(12); if (v.nullblob) v.s.assign(v.s.size(), '\0'); break;
    default: break;
  }
  return v;
}

inline void fill_vals(Msg &m, int maxpayload) {
  m.vals.clear();
  int budget = maxpayload;
  for (char t : m.tags) {
    if (t == '[' || t == ']') continue;
    Val v = gen_val(t, budget > 8 ? budget : 8);
    budget -= (int)v.s.size();
    m.vals.push_back(v);
  }
}

inline std::string gen_tags(int maxlen) {
  int n = vf::sized<int>(0, maxlen);
  std::string t;
  int c = vf::pickn(4);
  for (int i = 0; i < n; i++) {
    if (c == 0) t += "ifsb"[vf::pickn(4)];                  // plain OSC 1.0
    else t += TAGS17[vf::pickn(17)];
  }
  if (c == 2 && n >= 2) {                                     // balanced bracket group
    std::string u;
    for (char ch : t) if (ch != '[' && ch != ']') u += ch;
    size_t a = (size_t)vf::pickn((int)u.size() + 1), b = (size_t)vf::pickn((int)u.size() + 1);
    if (a > b) std::swap(a, b);
    t = u.substr(0, a) + "[" + u.substr(a, b - a) + "]" + u.substr(b);
  }
  return t;
}

inline Msg gen_msg(int maxtags = 40, int maxpayload = 4200, int maxaddr = 64) {
  Msg m;
  m.address = gen_address(maxaddr);
  m.tags = gen_tags(maxtags);
  fill_vals(m, maxpayload);
  return m;
}

// ---- handing a Msg to rtosc -------------------------------------------------
struct ArgPack {
  std::vector<rtosc_arg_t> args;       // for rtosc_amessage
  std::vector<uint64_t> slots;         // for a hand-made va_list (8 bytes per promoted argument)
  std::vector<int> slotcls;            // 0 int, 1 int64, 2 double, 3 pointer
  std::vector<std::vector<uint8_t>> midi;
  bool has_snan_float = false;
};
inline ArgPack pack(const Msg &m) {
  ArgPack p;
  p.midi.reserve(m.vals.size());
  for (auto &v : m.vals) {
    rtosc_arg_t a;
    memset(&a, 0, sizeof a);
    uint64_t slot = 0;
    switch (v.t) {
      case 'i': case 'c': case 'r':
        a.i = (int32_t)(uint32_t)v.u;
        slot = (uint64_t)(uint32_t)v.u; p.slots.push_back(slot); p.slotcls.push_back(0);
        break;
      case 'f': {
        uint32_t u = (uint32_t)v.u; memcpy(&a.f, &u, 4);
        float f; memcpy(&f, &u, 4);
        if ((u & 0x7f800000u) == 0x7f800000u && (u & 0x7fffffu) && !(u & 0x400000u)) p.has_snan_float = true;
        double d = (double)f; memcpy(&slot, &d, 8); p.slots.push_back(slot); p.slotcls.push_back(2);
        break;
      }
      case 'h': case 't':
        a.t = v.u; p.slots.push_back(v.u); p.slotcls.push_back(1);
        break;
      case 'd':
        a.t = v.u; p.slots.push_back(v.u); p.slotcls.push_back(2);
        break;
      case 'm': {
        uint8_t b[4] = {(uint8_t)(v.u >> 24), (uint8_t)(v.u >> 16), (uint8_t)(v.u >> 8), (uint8_t)v.u};
        memcpy(a.m, b, 4);
        p.midi.push_back(std::vector<uint8_t>(b, b + 4));
        slot = (uint64_t)(uintptr_t)p.midi.back().data(); p.slots.push_back(slot); p.slotcls.push_back(3);
        break;
      }
      case 's': case 'S':
        a.s = v.s.c_str();
        p.slots.push_back((uint64_t)(uintptr_t)v.s.c_str()); p.slotcls.push_back(3);
        break;
      case 'b':
        a.b.len = (int32_t)v.s.size();
        a.b.data = v.nullblob ? nullptr : (uint8_t *)v.s.data();
        p.slots.push_back((uint64_t)(uint32_t)v.s.size()); p.slotcls.push_back(0);
        p.slots.push_back((uint64_t)(uintptr_t)a.b.data); p.slotcls.push_back(3);
        break;
      default: break;  // T F N I: no argument consumed... but amessage indexes only reserved ones
    }
    if (refosc::has_payload(v.t)) p.args.push_back(a);
  }
  return p;
}

// x86-64 SysV va_list with exhausted register areas: every va_arg reads the overflow area.
struct VaLayout { unsigned gp_offset, fp_offset; void *overflow_arg_area, *reg_save_area; };
inline size_t call_vmessage(char *buf, size_t len, const char *addr, const char *tags, std::vector<uint64_t> &slots) {
  static_assert(sizeof(va_list) == sizeof(VaLayout), "x86-64 SysV va_list expected");
  va_list ap;
  VaLayout l;
  static uint64_t dummy[2];
  l.gp_offset = 48; l.fp_offset = 304;
  l.overflow_arg_area = slots.empty() ? (void *)dummy : (void *)slots.data();
  l.reg_save_area = nullptr;
  memcpy(&ap, &l, sizeof l);
  return rtosc_vmessage(buf, len, addr, tags, ap);
}

// real '...' call for up to 5 promoted arguments
template <class... A>
inline size_t call_dots(char *b, size_t l, const char *ad, const char *tg, const ArgPack &p, size_t i, A... a) {
  if (i == p.slots.size()) return rtosc_message(b, l, ad, tg, a...);
  if constexpr (sizeof...(A) < 4) {
    switch (p.slotcls[i]) {
      case 0: return call_dots(b, l, ad, tg, p, i + 1, a..., (int)(uint32_t)p.slots[i]);
      case 1: return call_dots(b, l, ad, tg, p, i + 1, a..., (int64_t)p.slots[i]);
      case 2: { double d; memcpy(&d, &p.slots[i], 8); return call_dots(b, l, ad, tg, p, i + 1, a..., d); }
      default: return call_dots(b, l, ad, tg, p, i + 1, a..., (void *)(uintptr_t)p.slots[i]);
    }
  }
  return (size_t)-1;
}

// flat arg-val list (no brackets) for rtosc_avmessage
inline std::vector<rtosc_arg_val_t> to_argvals(const Msg &m, const ArgPack &p) {
  std::vector<rtosc_arg_val_t> av;
  size_t ai = 0;
  for (auto &v : m.vals) {
    rtosc_arg_val_t x;
    memset(&x, 0, sizeof x);
    x.type = v.t;
    if (refosc::has_payload(v.t)) x.val = p.args[ai++];
    else if (v.t == 'T') x.val.T = 1;
    av.push_back(x);
  }
  return av;
}
inline std::string strip_brackets(const std::string &t) {
  std::string o;
  for (char c : t) if (c != '[' && c != ']') o += c;
  return o;
}

}  // namespace mg
