// C09 - walking a port tree enumerates exactly its dispatchable addresses.
#include "common/ptree.hpp"
#include <algorithm>

struct Case {
  pt::Tree tree;
  bool runtime = false;
  std::string prefix;   // pre-loaded name buffer ("" = empty buffer)
  template <class A> void io(A &a) { a(tree)(runtime)(prefix); }
  std::string describe() const { return tree.describe() + (runtime ? " walk=runtime" : " walk=static") + " prefix=\"" + prefix + "\""; }
};
const char *vf_property() { return "C09"; }
void vf_init() {}

Case vf_generate() {
  Case c;
  c.tree = pt::gen_tree(10);
  // leaf names with an inner '/' only behind an enumeration (a#N/b), as bundle ports use them
  for (auto &tb : c.tree.tables)
    for (auto &p : tb.ports)
      if (!p.subtree()) {
        size_t s = p.name.find('/');
        if (s != std::string::npos && p.name.find('#') == std::string::npos) p.name.erase(s, 1);
      }
  // multi-component sub-tree names (a#3/b#2/c/) with a harness-made recursion callback
  for (int t = 0; t < 5; t++)
    for (auto &p : c.tree.tables[(size_t)t].ports)
      if (p.kind == pt::RECUR && vf::chance(40)) {
        p.kind = pt::MULTI;
        std::string n;
        int comps = vf::pick<int>(2, 3);
        for (int k = 0; k < comps; k++) { n += pt::gen_stem(0); if (vf::chance(50)) n += "#" + std::to_string(vf::pick<int>(1, 3)); n += "/"; }
        p.name = n;
      }
  // sub-tree ports may carry an argument specification as well ("cfg/::i" style); this one admits every type string the
  // dispatch-back below sends, so that a reported leaf stays reachable
  for (auto &tb : c.tree.tables)
    for (auto &p : tb.ports)
      if (p.subtree() && p.kind != pt::MULTI && p.name.find(':') == std::string::npos && vf::chance(15)) p.name += "::i:ii:T:s";
  pt::decorate_enabled(c.tree);
  c.runtime = vf::chance(60);
  if (vf::chance(30)) c.prefix = "/" + vf::strover("xyz", 1, 3) + "/";
  return c;
}

struct W {
  std::vector<std::tuple<const rtosc::Port *, std::string>> rep;
  size_t bad_old_end = 0;
  const char *buffer = nullptr;
};
static void walker(const rtosc::Port *p, const char *name, const char *old_end, const rtosc::Ports &, void *data, void *) {
  W *w = (W *)data;
  w->rep.push_back(std::make_tuple(p, std::string(name)));
  if (!(old_end >= name && old_end <= name + strlen(name))) w->bad_old_end++;
}

std::string vf_run(const Case &c, vf::Ctx &ctx) {
  pt::Instance inst(c.tree);
  char buf[1024];
  memset(buf, 0, sizeof buf);
  memcpy(buf, c.prefix.data(), c.prefix.size());
  W w;
  w.buffer = buf;
  inst.record = false;   // toggles are queried during the walk; only the dispatch-back phase records
  rtosc::walk_ports(&inst.rootports(), buf, sizeof buf, &w, walker, true, c.runtime ? (void *)&inst.root : nullptr, false);
  std::string start = c.prefix.empty() ? "/" : c.prefix;
  if (start != buf) return "name buffer holds \"" + vf::esc(buf) + "\" after the walk, it started with \"" + start + "\" | " + c.describe();

  std::vector<pt::Instance::Report> model;
  inst.model_walk(0, &inst.root, c.runtime, start, model);
  // compare multisets of (table,port,address); optional reports (enabling port of a self-disabled table) may be absent
  auto locate = [&](const rtosc::Port *p, int &table, int &port) {
    for (int t = 0; t < 9; t++) {
      if (!inst.tabs[(size_t)t]) continue;
      auto &v = inst.tabs[(size_t)t]->ports;
      if (!v.empty() && p >= &v[0] && p <= &v[v.size() - 1]) { table = t; port = (int)(p - &v[0]); return true; }
    }
    return false;
  };
  typedef std::tuple<int, int, std::string> K;
  std::vector<K> got, must, may;
  for (auto &r : w.rep) {
    int t = -1, p = -1;
    if (!locate(std::get<0>(r), t, p)) return "walker reported a port that is in no table of the tree";
    got.push_back(K(t, p, std::get<1>(r)));
  }
  for (auto &m : model) (m.optional ? may : must).push_back(K(m.table, m.port, m.addr));
  std::sort(got.begin(), got.end());
  std::sort(must.begin(), must.end());
  std::vector<K> extra, missing;
  std::set_difference(got.begin(), got.end(), must.begin(), must.end(), std::back_inserter(extra));
  std::set_difference(must.begin(), must.end(), got.begin(), got.end(), std::back_inserter(missing));
  auto name = [&](const K &k) { return "T" + std::to_string(std::get<0>(k)) + ":\"" + c.tree.tables[(size_t)std::get<0>(k)].ports[(size_t)std::get<1>(k)].name + "\"@" + std::get<2>(k); };
  if (!missing.empty()) return "walk did not report " + name(missing[0]) + " (" + std::to_string(missing.size()) + " missing) | " + c.describe();
  for (auto &e : extra) {
    auto it = std::find(may.begin(), may.end(), e);
    if (it == may.end()) return "walk reported " + name(e) + " which the tree does not answer to (or reported it twice) | " + c.describe();
    may.erase(it);
    ctx.count("report.enabling_port_of_self_disabled_table");
  }
  if (w.bad_old_end) ctx.count("info.walker_port_part_pointer_outside_address(not judged)", w.bad_old_end);

  // every reported address dispatches to the port it was reported with (objects exist: runtime walk, or no NULLs)
  bool nulls = c.tree.null_ptr[0] || c.tree.null_ptr[1] || c.tree.null_manyp[0] || c.tree.null_manyp[1];
  size_t dispatched = 0;
  if (c.runtime || !nulls) {
    inst.record = true;
    for (auto &g : got) {
      int t = std::get<0>(g), p = std::get<1>(g);
      const std::string &addr = std::get<2>(g);
      std::string rel = addr.substr(start.size());
      refmatch::Pattern pat = refmatch::parse(c.tree.tables[(size_t)t].ports[(size_t)p].name);
      std::string tags = pat.has_types ? pat.types[0] : "";
      pt::MsgBuf mb("/" + rel, tags);
      inst.seen.clear();
      char loc[1024];
      memset(loc, 0, sizeof loc);
      rtosc::RtData d;
      d.obj = &inst.root;
      d.loc = loc; d.loc_size = sizeof loc;
      inst.rootports().dispatch(mb.msg(), d, true);
      bool hit = false;
      for (auto &s : inst.seen) if (s.table == t && s.port == p) hit = true;
      if (!hit) return "reported address " + addr + " (port " + name(g) + "), sent as a message, is not dispatched to that port | " + c.describe();
      // and to nothing that does not carry the same name pattern match (model of C04)
      std::vector<pt::Instance::Expect> exp;
      bool unspec = false;
      inst.expect(0, &inst.root, rel, tags, "/", exp, unspec);
      size_t nleaf = 0; for (auto &s : inst.seen) if (s.port >= 0) nleaf++;
      if (!unspec && exp.size() != nleaf) return "reported address " + addr + " dispatches to " + std::to_string(nleaf) + " callbacks, the tree model says " + std::to_string(exp.size()) + " | " + c.describe();
      dispatched++;
    }
  }
  ctx.count("reports", got.size());
  ctx.count("dispatched_back", dispatched);
  bool deep_enum = false, skipped = false, multi = false;
  for (auto &tb : c.tree.tables) for (auto &p : tb.ports) if (p.kind == pt::MULTI) multi = true;
  if (multi) ctx.count("class.multi_component_subtree_name");
  for (int t = 1; t < 9; t++) for (auto &p : c.tree.tables[(size_t)t].ports) if (p.name.find('#') != std::string::npos) deep_enum = true;
  if (c.runtime) {
    std::vector<pt::Instance::Report> stat;
    inst.model_walk(0, &inst.root, false, start, stat);
    if (stat.size() != model.size()) { skipped = true; ctx.count("class.runtime_walk_skips_subtrees"); }
  }
  if (deep_enum) ctx.count("class.enumeration_below_depth1");
  if (c.runtime) ctx.count("class.runtime_walk"); else ctx.count("class.static_walk");
  if (deep_enum || skipped) ctx.nontriv(vf::fnv(c.describe()));
  return "";
}
std::string vf_enumerate(vf::Ctx &, int, int, long) { return ""; }
VF_MAIN(Case)
