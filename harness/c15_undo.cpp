// C15 - undo history rewinds and replays recorded changes exactly.
// The wall clock is owned by the harness: time() is defined here and the library's call binds to it.
#include "common/vf.hpp"
#include "common/refosc.hpp"
#include "common/ptree.hpp"
#include <rtosc/undo-history.h>
#include <rtosc/ports.h>
#include <rtosc/port-sugar.h>
#include <cstdarg>
#include <ctime>

static time_t g_now = 1000;
extern "C" time_t time(time_t *t) { if (t) *t = g_now; return g_now; }

struct Op {
  int kind = 0;        // 0 record/set, 1 seek, 2 advance clock
  int addr = 0;        // which of the addresses
  char type = 'i';
  int64_t oldv = 0, newv = 0;   // i,c: ints ; f: value = v/4
  int dist = 0;
  template <class A> void io(A &a) { a(kind)(addr)(type)(oldv)(newv)(dist); }
};
struct Case {
  bool e2e = false;
  std::vector<Op> ops;
  template <class A> void io(A &a) { a(e2e)(ops); }
  std::string describe() const {
    std::string d = e2e ? "end-to-end:" : "history:";
    for (auto &o : ops) {
      if (o.kind == 0) d += " rec(a" + std::to_string(o.addr) + "," + o.type + "," + std::to_string(o.oldv) + "->" + std::to_string(o.newv) + ")";
      else if (o.kind == 1) d += " seek(" + std::to_string(o.dist) + ")";
      else d += " clock+" + std::to_string(o.dist);
    }
    return d;
  }
};
const char *vf_property() { return "C15"; }
void vf_init() {}

static const char *ADDR[5] = {"/a", "/b/c", "/p2", "/long/address/x", "/p21"};   // "/p2" is a proper prefix of "/p21" (array elements amp1 / amp10)
// end-to-end application
struct App { int pi = 10; float pf = 1; char pc = 5; int pj = 0; static const rtosc::Ports ports; };
#define rObject App
const rtosc::Ports App::ports = {
    rParamI(pi, rLinear(0, 100), "i"), rParamF(pf, rLinear(-100, 100), "f"), rParam(pc, "c"), rParamI(pj, "j"),
};
#undef rObject
static const char *E2E_ADDR[4] = {"/pi", "/pf", "/pc", "/pj"};
static const char E2E_TYPE[4] = {'i', 'f', 'c', 'i'};

Case vf_generate() {
  Case c;
  c.e2e = vf::chance(35);
  int n = vf::sized<int>(0, 60);
  bool spaced = vf::chance(35);   // records mostly outside each other's merge window, so that the 20-event cap is reached
  if (spaced) n = std::max(n, vf::pick<int>(20, 60));
  for (int i = 0; i < n; i++) {
    Op o;
    int k = vf::pickn(10);
    if (spaced && k < 8 && vf::chance(70)) { Op t; t.kind = 2; t.dist = 3; c.ops.push_back(t); k = vf::pickn(6); }
    if (k < 6) {
      o.kind = 0;
      o.addr = c.e2e ? vf::pickn(4) : vf::pickn(5);
      o.type = c.e2e ? E2E_TYPE[o.addr] : "ifc"[vf::pickn(3)];
      o.oldv = vf::pick<int>(-20, 20);
      o.newv = c.e2e ? (vf::chance(75) ? vf::pick<int>(0, 100) : vf::pick<int>(-40, 170)) : vf::pick<int>(-20, 20);   // end to end also beyond the ports' ranges (the event carries the clamped value)
    } else if (k < 8) { o.kind = 1; o.dist = vf::oneof<int>({-1, -1, 1, 1, -2, 2, -3, 5, -30, 30, 0}); }
    else { o.kind = 2; o.dist = vf::oneof<int>({0, 1, 2, 3, 10}); }
    c.ops.push_back(o);
  }
  return c;
}

struct Entry { std::string addr; char type; uint32_t oldb, newb; time_t t; };
static uint32_t bits(char type, int64_t v) {
  if (type == 'f') { float f = (float)v / 4.0f; uint32_t u; memcpy(&u, &f, 4); return u; }
  return (uint32_t)(int32_t)v;
}
static refosc::Val val(char t, uint32_t b) { refosc::Val v; v.t = t; v.u = b; return v; }
static std::string showb(char t, uint32_t b) { char s[32]; if (t == 'f') { float f; memcpy(&f, &b, 4); snprintf(s, sizeof s, "%g", f); } else snprintf(s, sizeof s, "%d", (int)b); return s; }
static std::string show(const std::vector<Entry> &h, size_t pos) {
  std::string s = "[";
  for (size_t i = 0; i < h.size(); i++) s += (i == pos ? "|" : "") + h[i].addr + ":" + h[i].type + ":" + showb(h[i].type, h[i].oldb) + "->" + showb(h[i].type, h[i].newb) + "@" + std::to_string((long)h[i].t) + " ";
  if (pos == h.size()) s += "|";
  return s + "]";
}

static bool read_history(rtosc::UndoHistory &u, std::vector<Entry> &out, std::string &err) {
  out.clear();
  for (size_t i = 0; i < u.size(); i++) {
    const char *m = u.getHistory((int)i);
    size_t l = rtosc_message_length(m, 512);
    refosc::Decoded d = refosc::decode((const unsigned char *)m, l);
    if (d.st != refosc::OK || d.vals.size() != 3 || d.vals[0].t != 's') { err = "history entry " + std::to_string(i) + " is not an /undo_change s?? message"; return false; }
    Entry e; e.addr.assign(m + d.vals[0].off, d.vals[0].len); e.type = d.vals[2].t; e.oldb = (uint32_t)d.vals[1].u; e.newb = (uint32_t)d.vals[2].u; e.t = 0;
    out.push_back(e);
  }
  return true;
}
static bool same_hist(const std::vector<Entry> &a, const std::vector<Entry> &b) {
  if (a.size() != b.size()) return false;
  for (size_t i = 0; i < a.size(); i++) if (a[i].addr != b[i].addr || a[i].type != b[i].type || a[i].oldb != b[i].oldb || a[i].newb != b[i].newb) return false;
  return true;
}

struct Model {
  std::vector<Entry> h;
  size_t pos = 0;
  // record with the scan the statement describes: merge into the most recent same-address entry inside the window.
  // 'ideal' looks at every retained entry; 'scan' stops at the first entry (going back) that is outside the window.
  std::vector<Entry> record(const Entry &e, bool ideal, size_t &npos, int *hitout = nullptr) const {
    std::vector<Entry> r(h.begin(), h.begin() + (long)pos);
    npos = pos;
    int hit = -1;
    for (int i = (int)npos - 1; i >= 0; --i) {
      bool inside = difftime(e.t, r[(size_t)i].t) <= 2;
      if (!inside) { if (ideal) continue; else break; }
      if (r[(size_t)i].addr == e.addr) { hit = i; break; }
    }
    if (hitout) *hitout = hit;
    if (hit >= 0) { r[(size_t)hit].newb = e.newb; r[(size_t)hit].type = e.type; r[(size_t)hit].t = e.t; return r; }
    r.push_back(e);
    npos++;
    if (r.size() > 20) { r.erase(r.begin()); npos--; }
    return r;
  }
};

struct Fwd : rtosc::RtData {
  rtosc::UndoHistory *u = nullptr;
  bool suspended = false;
  size_t recorded = 0;
  void reply(const char *path, const char *args, ...) override {
    va_list va; va_start(va, args);
    char buf[512];
    rtosc_vmessage(buf, sizeof buf, path, args, va);
    va_end(va);
    if (!strcmp(path, "/undo_change") && !suspended) { u->recordEvent(buf); recorded++; }
  }
  void broadcast(const char *, const char *, ...) override {}
};

std::string vf_run(const Case &c, vf::Ctx &ctx) {
  g_now = 1000;
  rtosc::UndoHistory u;
  // every other case a second history lives next to the checked one and gets the same operations first (nothing is shared)
  rtosc::UndoHistory u2;
  u2.setCallback([](const char *) {});
  const bool with_shadow = c.ops.size() % 2 == 0;
  if (with_shadow) ctx.count("class.second_history_alongside");
  std::vector<std::string> emitted;
  Model m;
  App app, mapp;
  Fwd fwd;
  fwd.u = &u;
  char loc[128];
  auto dispatch = [&](const std::string &msg) {
    std::vector<char> b(msg.size() + 64, 0);
    memcpy(b.data(), msg.data(), msg.size());
    memset(loc, 0, sizeof loc);
    fwd.obj = &app; fwd.loc = loc; fwd.loc_size = sizeof loc;
    App::ports.dispatch(b.data(), fwd, true);
  };
  u.setCallback([&](const char *msg) {
    emitted.push_back(std::string(msg, rtosc_message_length(msg, 256)));
    if (c.e2e) { fwd.suspended = true; dispatch(emitted.back()); fwd.suspended = false; }
  });
  auto app_set = [](App &a, const std::string &addr, char t, uint32_t b) {
    float f; memcpy(&f, &b, 4);
    if (addr == "/pi") a.pi = (int)b; else if (addr == "/pj") a.pj = (int)b; else if (addr == "/pc") a.pc = (char)(int)b; else if (addr == "/pf") a.pf = f;
    (void)t;
  };
  bool after_undo_record = false, cap = false, merge_old = false, ambiguous = false;
  std::string D = " | " + c.describe();
  for (size_t oi = 0; oi < c.ops.size(); oi++) {
    const Op &op = c.ops[oi];
    std::string W = " at op " + std::to_string(oi) + D;
    if (op.kind == 2) { g_now += op.dist; continue; }
    if (op.kind == 0) {
      Entry e;
      e.type = op.type; e.t = g_now;
      bool expect_event = true;
      if (c.e2e) {
        e.addr = E2E_ADDR[op.addr];
        // the event comes from the parameter port: old = the stored value, new = the (in-range) incoming one
        uint32_t cur = op.addr == 0 ? (uint32_t)mapp.pi : op.addr == 3 ? (uint32_t)mapp.pj : op.addr == 2 ? (uint32_t)(int)mapp.pc : 0;
        if (op.addr == 1) memcpy(&cur, &mapp.pf, 4);
        // what is sent, and what the port stores (its declared range: pi 0..100, pc 0..127, pf -100..100, pj none)
        int64_t sent = op.newv, stored = op.newv;
        if (op.addr == 2 && sent > 127) sent = stored = 127;   // a 'c' argument is a char: larger numbers are C14's business, not an undo question
        if (op.addr == 0) stored = std::max<int64_t>(0, std::min<int64_t>(100, stored));
        if (op.addr == 2) stored = std::max<int64_t>(0, std::min<int64_t>(127, stored));
        uint32_t sentb = bits(op.type, sent);
        e.oldb = cur; e.newb = bits(op.type, stored);
        if (op.addr == 1) { float f = (float)op.newv / 4.0f; memcpy(&e.newb, &f, 4); sentb = e.newb; }
        expect_event = e.oldb != e.newb;
        if (sent != stored) ctx.count("e2e.set_beyond_the_range");
        size_t before = fwd.recorded;
        dispatch(refosc::encode(e.addr, std::string(1, op.type), {val(op.type, sentb)}));
        app_set(mapp, e.addr, e.type, e.newb);
        if ((fwd.recorded != before) != expect_event) return std::string("parameter port emitted ") + (fwd.recorded != before ? "an" : "no") + " undo event for a set that " + (expect_event ? "changes" : "does not change") + " the value" + W;
      } else {
        e.addr = ADDR[op.addr]; e.oldb = bits(op.type, op.oldv); e.newb = bits(op.type, op.newv);
        // the event's own name is the recorder's business ("/undo_change" is what the parameter macros use, the manual's
        // example is "/undo/handler"): shorter and longer ones, fixed per case
        static const char *EVNAME[4] = {"/undo_change", "/undo", "/undo/handler", "/u"};
        std::string msg = refosc::encode(EVNAME[(c.ops.size() / 2) % 4], std::string("s") + op.type + op.type, {[&] { refosc::Val v; v.t = 's'; v.s = e.addr; return v; }(), val(op.type, e.oldb), val(op.type, e.newb)});
        std::vector<char> b(msg.size() + 8, 0);
        memcpy(b.data(), msg.data(), msg.size());
        if (with_shadow) u2.recordEvent(b.data());
        u.recordEvent(b.data());
      }
      if (expect_event) {
        if (m.pos < m.h.size()) after_undo_record = true;
        size_t p1, p2;
        int hit1 = -1;
        std::vector<Entry> scan = m.record(e, false, p1, &hit1), ideal = m.record(e, true, p2);
        std::vector<Entry> got;
        std::string err;
        if (!read_history(u, got, err)) return err + W;
        bool ok_scan = same_hist(got, scan) && u.getPos() == p1, ok_ideal = same_hist(got, ideal) && u.getPos() == p2;
        if (!ok_scan && !ok_ideal) return "after record: history " + show(got, u.getPos()) + " pos " + std::to_string(u.getPos()) + ", expected " + show(scan, p1) + (same_hist(scan, ideal) ? "" : " or " + show(ideal, p2)) + W;
        if (!same_hist(scan, ideal) || p1 != p2) { ambiguous = true; ctx.count("record.merge_target_shadowed(both outcomes accepted)"); }
        if (scan.size() == 20 && m.pos == 20 && p1 == 20 && scan.size() == m.h.size() && !same_hist(scan, m.h) && scan.back().addr == e.addr && scan.back().oldb == e.oldb) cap = true;
        if (ok_scan) { // keep the times of the model
          if (hit1 >= 0 && (size_t)hit1 + 1 < p1) merge_old = true;
          m.h = scan; m.pos = p1;
        } else { m.h = ideal; m.pos = p2; }
      }
    } else {
      emitted.clear();
      long dest = (long)m.pos + op.dist;
      if (dest < 0) dest = 0;
      if (dest > (long)m.h.size()) dest = (long)m.h.size();
      std::vector<std::string> want;
      if (dest < (long)m.pos) for (long i = (long)m.pos - 1; i >= dest; --i) { const Entry &e = m.h[(size_t)i]; want.push_back(refosc::encode(e.addr, std::string(1, e.type), {val(e.type, e.oldb)})); if (c.e2e) app_set(mapp, e.addr, e.type, e.oldb); }
      else for (long i = (long)m.pos; i < dest; ++i) { const Entry &e = m.h[(size_t)i]; want.push_back(refosc::encode(e.addr, std::string(1, e.type), {val(e.type, e.newb)})); if (c.e2e) app_set(mapp, e.addr, e.type, e.newb); }
      if (with_shadow) u2.seekHistory(op.dist);
      u.seekHistory(op.dist);
      m.pos = (size_t)dest;
      if (u.getPos() != m.pos) return "after seek(" + std::to_string(op.dist) + "): position " + std::to_string(u.getPos()) + ", expected " + std::to_string(m.pos) + W;
      if (u.size() != m.h.size()) return "seek changed the number of retained events" + W;
      if (emitted.size() != want.size()) return "seek(" + std::to_string(op.dist) + ") emitted " + std::to_string(emitted.size()) + " messages, expected " + std::to_string(want.size()) + " from " + show(m.h, m.pos) + W;
      for (size_t i = 0; i < want.size(); i++) {
        if (emitted[i] != want[i]) {
          refosc::Decoded d = refosc::decode((const unsigned char *)emitted[i].data(), emitted[i].size());
          return "seek(" + std::to_string(op.dist) + ") message " + std::to_string(i) + " is " + (d.st == refosc::OK ? d.address + " ," + d.tags + " " + (d.vals.empty() ? "" : showb(d.vals[0].t, (uint32_t)d.vals[0].u)) : std::string("undecodable")) + ", expected per history " + show(m.h, m.pos) + W;
        }
      }
    }
    if (u.size() > 20) return "more than 20 events retained" + W;
    if (c.e2e && (app.pi != mapp.pi || app.pj != mapp.pj || app.pc != mapp.pc || memcmp(&app.pf, &mapp.pf, 4))) {
      char b[200]; snprintf(b, sizeof b, "application state pi=%d pf=%g pc=%d pj=%d, model pi=%d pf=%g pc=%d pj=%d", app.pi, app.pf, app.pc, app.pj, mapp.pi, mapp.pf, mapp.pc, mapp.pj);
      return std::string(b) + W;
    }
  }
  if (u.size() == 20) cap = true;
  if (after_undo_record) ctx.count("class.record_after_undo");
  if (cap) ctx.count("class.reached_cap");
  if (merge_old) ctx.count("class.merge_into_non_newest");
  if (c.e2e) ctx.count("class.end_to_end");
  (void)ambiguous;
  if (after_undo_record || cap || merge_old) ctx.nontriv(vf::fnv(c.describe()));
  return "";
}
std::string vf_enumerate(vf::Ctx &, int, int, long) { return ""; }
VF_MAIN(Case)
