// C13 - loading a savefile does not depend on the order of its lines.
// Savefiles come from C12's generated applications (plus variants with a depended-on line removed); every
// permutation of up to 6 message lines, 200 generated permutations beyond, must load to the same state and count.
#include "common/genapp.hpp"
#include <algorithm>

struct Case {
  ga::AppSpec spec;
  std::vector<ga::Set> hist;
  int drop = -1;                 // remove this message line from the file (depended-on port absent), -1: none
  std::vector<int> shuffle;      // choice tape for permutations beyond 6 lines
  template <class A> void io(A &a) { a(spec)(hist)(drop)(shuffle); }
  std::string describe() const {
    std::string d = spec.describe() + " | history:";
    for (auto &s : hist) {
      d += " " + ga::prefix_of(s.target) + ga::name_of(s.field);
      if (s.idx >= 0) d += "[" + std::to_string(s.idx) + "]";
      d += "=" + s.v.show(ga::kind_of(s.field));
    }
    return d + " drop=" + std::to_string(drop);
  }
};
const char *vf_property() { return "C13"; }
void vf_init() {}

Case vf_generate() {
  Case c;
  c.spec = ga::gen_spec();
  // make dependencies likely: a preset port with dependants, rDepends chain, enabled-by toggles
  c.hist = ga::gen_history(c.spec, 16);
  // touch the ports other ports depend on, late in the history (so that dependants keep non-default values)
  auto add = [&](int target, int field) {
    const ga::PSpec *p = c.spec.find(target == 0 ? c.spec.root : c.spec.sub, field);
    if (!p) return;
    ga::Set s; s.target = target; s.field = field; s.v = ga::gen_val(field, *p); s.by_symbol = vf::coin();
    s.idx = ga::gen_idx(field);
    c.hist.insert(c.hist.begin() + vf::pickn((int)c.hist.size() + 1), s);
  };
  if (vf::chance(70)) add(0, ga::PRESET);
  if (vf::chance(50)) add(0, ga::RI);
  if (vf::chance(50)) add(0, ga::RJ);
  if (vf::chance(50)) add(0, ga::EN);
  if (vf::chance(50)) add(0, ga::RT);
  // dependants set after their masters, so that the saved state has both at non-default values
  for (auto &p : c.spec.root) if ((p.depends || p.depends_on >= 0) && vf::chance(70)) { ga::Set s; s.target = 0; s.field = p.field; s.v = ga::gen_val(p.field, p); s.idx = ga::gen_idx(p.field); c.hist.push_back(s); }
  c.drop = vf::chance(35) ? vf::pickn(8) : -1;
  for (int i = 0; i < 64; i++) c.shuffle.push_back(vf::pickn(1000));
  return c;
}

static std::string state_of(ga::App &a) {
  // textual fingerprint of every parameter in the saved scope (for comparing permutations among each other)
  std::string s;
  for (auto &p : a.spec.root) s += std::string(ga::name_of(p.field)) + "=" + ga::get_root(a.root, p.field).show(ga::kind_of(p.field)) + ";";
  std::vector<ga::Sub *> ss = a.subs();
  std::vector<std::string> pre = a.sub_prefixes();
  for (size_t k = 0; k < ss.size(); k++) for (auto &p : a.spec.sub) s += pre[k] + ga::name_of(p.field) + "=" + ga::get_sub(*ss[k], p.field).show(ga::kind_of(p.field)) + ";";
  return s;
}

std::string vf_run(const Case &c, vf::Ctx &ctx) {
  c.spec.set_mode();
  if (c.spec.short_names) ctx.count("class.one_letter_names_of_depended_on_ports");
  if (c.spec.nested) ctx.count("class.application_mounted_one_level_down");
  ga::App app(c.spec);
  for (size_t i = 0; i < c.hist.size(); i++) {
    const ga::Set &s = c.hist[i];
    const ga::PSpec *p = c.spec.find(s.target == 0 ? c.spec.root : c.spec.sub, s.field);
    if (!p) continue;
    if (s.target == 2 && !app.root.psub) continue;
    app.dispatch(ga::encode_set(s, *p));
  }
  std::string file = ga::save(app), header;
  std::vector<std::string> msgs = ga::split_messages(file, header);
  // one application instance (one port tree) receives every load of this case, reset to its initial state in between:
  // what a load leaves behind in the library must not influence the next one
  ga::App loader(c.spec);
  // a removed line either defines the file under test (depended-on port absent), or - every other such case - only a
  // file that the same application loads beforehand
  const bool warm_up = c.drop >= 0 && !msgs.empty() && !c.shuffle.empty() && c.shuffle[0] % 2 == 1;
  if (warm_up) {
    std::vector<std::string> other = msgs;
    other.erase(other.begin() + (c.drop % (int)other.size()));
    std::string f = header;
    for (auto &m : other) f += m + "\n";
    ga::load(loader, f);
    ctx.count("class.other_file_loaded_before");
  } else if (c.drop >= 0 && !msgs.empty()) msgs.erase(msgs.begin() + (c.drop % (int)msgs.size()));
  if (msgs.size() < 2) { ctx.count("files_with_less_than_two_lines"); return ""; }
  std::string D = " | " + c.describe();
  // every other case some messages share a line (the format separates messages by whitespace, not by line breaks)
  const bool share_lines = c.shuffle.size() > 1 && c.shuffle[1] % 2 == 1;
  size_t layout = 0;
  auto build = [&](const std::vector<size_t> &perm) {
    std::string f = header;
    for (size_t i = 0; i < perm.size(); i++) f += msgs[perm[i]] + ((share_lines && i + 1 < perm.size() && (i + layout) % 3 != 2) ? " " : "\n");
    layout++;
    return f;
  };
  if (share_lines) ctx.count("class.several_messages_per_line");
  std::vector<size_t> canon(msgs.size());
  for (size_t i = 0; i < canon.size(); i++) canon[i] = i;
  ga::App &base = loader;
  base.reset_all();
  int rv0 = ga::load(base, build(canon));
  // a file that does not load at all in its original order is C12's business (e.g. its listed finding about a
  // char parameter holding 0), not an order dependence: skipped and counted
  if (rv0 != (int)msgs.size()) { ctx.count("skipped.file_not_loadable_in_original_order"); return ""; }
  std::string st0 = state_of(base);
  // which lines depend on which (by the generated metadata): used only to classify the case
  bool has_edge = false;
  {
    auto has = [&](const std::string &a) { for (auto &m : msgs) if (m.compare(0, a.size(), a) == 0 && (m.size() == a.size() || m[a.size()] == ' ' || m[a.size()] == '\n')) return true; return false; };
    for (auto &p : c.spec.root) {
      const std::string T = ga::top() + "/";
      if (p.depends && has(T + ga::name_of(ga::PRESET)) && has(T + ga::name_of(p.field))) has_edge = true;
      if (p.depends_on >= 0 && has(T + ga::name_of(p.field)) && (has(T + ga::name_of(ga::RI)) || has(T + ga::name_of(ga::PRESET)) || (p.depends_on2 >= 0 && has(T + ga::name_of(ga::RT))))) has_edge = true;
    }
    if (has(ga::top() + "/" + ga::name_of(ga::EN))) for (auto &m : msgs) if (m.compare(0, ga::top().size() + 4, ga::top() + "/sub") == 0 || m.compare(0, ga::top().size() + 5, ga::top() + "/psub") == 0) has_edge = true;
  }
  size_t tried = 0;
  auto try_perm = [&](const std::vector<size_t> &perm) -> std::string {
    ga::App &a = loader;
    a.reset_all();
    std::string f = build(perm);
    int rv = ga::load(a, f);
    tried++;
    if (rv != rv0) return "a permutation of the message lines loads " + std::to_string(rv) + " messages, the original order " + std::to_string(rv0) + " | permuted file=\"" + vf::esc(f) + "\"" + D;
    std::string st = state_of(a);
    if (st != st0) {
      // find the first differing parameter for the report
      size_t i = 0; while (i < st.size() && i < st0.size() && st[i] == st0[i]) i++;
      size_t b = st.rfind(';', i); b = b == std::string::npos ? 0 : b + 1;
      return "a permutation of the message lines loads a different state: " + st.substr(b, st.find(';', i) - b) + " vs " + st0.substr(b, st0.find(';', i) - b) + " in the original order | permuted file=\"" + vf::esc(f) + "\"" + D;
    }
    return "";
  };
  if (msgs.size() <= 6) {
    std::vector<size_t> perm = canon;
    while (std::next_permutation(perm.begin(), perm.end())) { std::string e = try_perm(perm); if (!e.empty()) return e; }
    ctx.count("files.all_permutations");
  } else {
    // generated permutations (Fisher-Yates from the case's choice tape), plus the reversal
    std::vector<size_t> rev(canon.rbegin(), canon.rend());
    std::string e = try_perm(rev);
    if (!e.empty()) return e;
    uint64_t st = 88172645463325252ull;
    for (int t : c.shuffle) st = st * 6364136223846793005ull + (uint64_t)t + 1442695040888963407ull;
    for (int r = 0; r < 200; r++) {
      std::vector<size_t> perm = canon;
      for (size_t i = perm.size(); i > 1; i--) { st ^= st << 13; st ^= st >> 7; st ^= st << 17; std::swap(perm[i - 1], perm[(size_t)(st % i)]); }
      e = try_perm(perm);
      if (!e.empty()) return e;
    }
    ctx.count("files.sampled_permutations");
  }
  ctx.count("permutations_loaded", tried);
  ctx.count("lines." + std::to_string(std::min<size_t>(msgs.size(), 12)));
  if (c.drop >= 0 && !warm_up) ctx.count("class.line_removed");
  if (has_edge) { ctx.count("class.has_dependency_edge"); ctx.nontriv(vf::fnv(c.describe())); }
  return "";
}
std::string vf_enumerate(vf::Ctx &, int, int, long) { return ""; }
VF_MAIN(Case)
