// C05 - path-pattern matching follows the documented pattern language.
// --gen : rapidcheck, grammar-generated patterns x addresses derived from the pattern (+mutations)
// --enum: bounded grammar patterns x every address over an 11-letter alphabet up to length L x 9 tag strings
#include "common/vf.hpp"
#include "common/refmatch.hpp"
#include "common/refosc.hpp"
#include <rtosc/rtosc.h>
#include <rtosc/ports.h>

using refmatch::Pattern;

struct Case {
  std::string pattern, address, tags;
  std::string pattern2;   // a second pattern that replaces the first one in the same storage before it is matched (may be empty: not done)
  template <class A> void io(A &a) { a(pattern)(address)(tags); if (a.more()) a(pattern2); }   // pattern2: optional trailing field
  std::string describe() const { return "pattern=\"" + pattern + "\" address=\"" + address + "\" tags=\"" + tags + "\"" + (pattern2.empty() ? "" : " then in the same storage pattern=\"" + pattern2 + "\""); }
};
const char *vf_property() { return "C05"; }
void vf_init() {}

static const std::vector<std::string> TAGSETS = {"", "i", "f", "ii", "if", "s", "T", "iii", "fi"};
static const std::vector<std::string> TYPESPECS = {"", ":", ":i", "::i", ":i:f", ":ii:s", ":T:", ":if:i", ":f:ii:", ":s:T:i"};

// message buffer with zeroed slack (see DESIGN.md section 1: match/dispatch inputs live in padded buffers)
static size_t build_msg(char *buf, size_t cap, const std::string &address, const std::string &tags) {
  std::vector<refosc::Val> vals;
  for (char t : tags) { refosc::Val v; v.t = t; vals.push_back(v); }
  std::string m = refosc::encode(address, tags, vals);
  memset(buf, 0, cap);
  memcpy(buf, m.data(), m.size());
  return m.size();
}

static std::string gen_alt() { return vf::strover("abc", 0, 3); }
static std::string gen_pattern() {
  std::string p;
  int natoms = vf::sized<int>(1, 7);
  bool last_enum = false;
  for (int i = 0; i < natoms; i++) {
    int k = vf::pickn(10);
    if (k < 4) { p += "abc"[vf::pickn(3)]; last_enum = false; }
    else if (k < 6 && !last_enum) { p += "#" + std::to_string(vf::oneof<int>({1, 2, 3, 10, 12, 100, 1000})); last_enum = true; }
    else if (k < 8) {
      int na = vf::pick<int>(1, 3);
      std::string g = "{";
      std::string first = gen_alt();
      for (int a = 0; a < na; a++) {
        std::string alt = a == 0 ? first : (vf::chance(40) ? first + gen_alt() : gen_alt());  // prefix-of-each-other alternatives
        if (a == 1 && vf::chance(20)) alt = first.substr(0, first.size() / 2);
        g += (a ? "," : "") + alt;
      }
      p += g + "}";
      last_enum = false;
    } else if (k < 9 && !p.empty() && p.back() != '/') { p += "/"; last_enum = false; }
    else { p += "abc"[vf::pickn(3)]; last_enum = false; }
  }
  if (vf::chance(30) && p.back() != '/') p += "/";
  p += vf::oneof(TYPESPECS);
  return p;
}

Case vf_generate() {
  Case c;
  c.pattern = gen_pattern();
  Pattern p = refmatch::parse(c.pattern);
  // address: sample from the pattern, then 0..2 mutations
  std::string a = refmatch::sample(p, [](int n) { return vf::pickn(n); }, vf::chance(30));
  if (p.trailing_slash && vf::coin()) a += vf::strover("abc/0", 0, 4);
  static const std::string AL = "abcd/01239_";
  int muts = vf::pickn(10) < 4 ? 0 : vf::pick<int>(1, 2);
  for (int i = 0; i < muts; i++) {
    int k = vf::pickn(5);
    if (a.empty()) k = 0;
    size_t pos = a.empty() ? 0 : (size_t)vf::pickn((int)a.size());
    if (k == 0) a.insert(pos, 1, AL[(size_t)vf::pickn(11)]);
    else if (k == 1) a.erase(pos, 1);
    else if (k == 2) a[pos] = AL[(size_t)vf::pickn(11)];
    else if (k == 3) {  // index off by one / exactly N
      size_t d = a.find_first_of("0123456789");
      if (d != std::string::npos) { size_t e = d; while (e < a.size() && isdigit((unsigned char)a[e])) e++; long v = atol(a.substr(d, e - d).c_str()); a.replace(d, e - d, std::to_string(v + vf::pick<int>(0, 2))); }
    } else a += AL[(size_t)vf::pickn(11)];
  }
  if (a.empty()) a = "a";
  // keep indices <= 9 digits (beyond: atoi overflow, outside the stated domain)
  { size_t run = 0; for (char ch : a) { run = isdigit((unsigned char)ch) ? run + 1 : 0; if (run > 9) { a = "a"; break; } } }
  c.address = a;
  // tags: one of the pattern's alternatives, an extension, or unrelated
  if (p.has_types && vf::chance(60)) { c.tags = vf::oneof(p.types); if (vf::chance(25)) c.tags += vf::oneof<std::string>({"i", "f", "s"}); }
  else c.tags = vf::oneof(TAGSETS);
  // a second pattern for the same storage: the same text with another bound at one enumeration (same or other number of digits)
  if (vf::chance(40)) {
    size_t h = c.pattern.find('#');
    if (h != std::string::npos) {
      size_t e = h + 1; while (e < c.pattern.size() && isdigit((unsigned char)c.pattern[e])) e++;
      long n = atol(c.pattern.substr(h + 1, e - h - 1).c_str());
      long n2 = vf::oneof<long>({n / 2, n + 1, n + 3, 1, n * 10});
      if (n2 < 1 || n2 == n) n2 = n + 2;
      c.pattern2 = c.pattern.substr(0, h + 1) + std::to_string(n2) + c.pattern.substr(e);
    } else c.pattern2 = gen_pattern();
  }
  return c;
}

struct Verdict { std::string fail; bool excluded = false; };
static Verdict judge(const std::string &pattern, const Pattern &p, const std::string &address, const std::string &tags, const char *msg, vf::Ctx &ctx, bool count) {
  Verdict v;
  bool pm = refmatch::path_matches(p, address);
  refmatch::Expect te = refmatch::types_expect(p, tags);
  const char *pe = nullptr;
  bool got = rtosc_match(pattern.c_str(), msg, &pe);
  const char *rest = rtosc_match_path(pattern.c_str(), msg, nullptr);
  bool gotpath = rest != nullptr;
  if (gotpath != pm) {
    if (pm && !gotpath && !refmatch::path_matches_greedy(p, address) && vf::known("alt-no-backtrack")) {
      v.excluded = true;
      if (count) ctx.count("excluded.alt-no-backtrack");
      return v;
    }
    v.fail = std::string("rtosc_match_path ") + (gotpath ? "accepts" : "rejects") + " address \"" + address + "\" for pattern \"" + pattern + "\", the pattern language says it " + (pm ? "matches" : "does not match");
    if (pm && !gotpath && !refmatch::path_matches_greedy(p, address)) v.fail += " [class alt-no-backtrack: only reachable through a later alternative]";
    return v;
  }
  if (gotpath && p.has_types && *rest != ':') { v.fail = "rtosc_match_path does not return the position of the type alternatives"; return v; }
  bool must = pm && te == refmatch::MUST, mustnot = !pm || te == refmatch::MUST_NOT;
  if (must && !got) { v.fail = "rtosc_match rejects \"" + address + "\" ,\"" + tags + "\" for pattern \"" + pattern + "\" although path and type tags match"; return v; }
  if (mustnot && got) { v.fail = "rtosc_match accepts \"" + address + "\" ,\"" + tags + "\" for pattern \"" + pattern + "\" although " + (pm ? "the type tags are neither equal to nor an extension of an alternative" : "the path does not match"); return v; }
  if (count) {
    if (!must && !mustnot) ctx.count(got ? "unspecified.extension_accepted" : "unspecified.extension_rejected");
    ctx.count(must ? "expect.must" : mustnot ? "expect.mustnot" : "expect.unspecified");
  }
  return v;
}

std::string vf_run(const Case &c, vf::Ctx &ctx) {
  Pattern p = refmatch::parse(c.pattern);
  if (!p.ok) return "harness: unparsable pattern " + c.pattern;
  char buf[256];
  if (c.address.size() > 100) return "";
  build_msg(buf, sizeof buf, c.address, c.tags);
  Verdict v = judge(c.pattern, p, c.address, c.tags, buf, ctx, true);
  if (!v.fail.empty()) return v.fail;
  // the same patterns in run-time storage that is reused: first pattern matched there, then the second one in its place
  if (!c.pattern2.empty()) {
    Pattern p2 = refmatch::parse(c.pattern2);
    if (p2.ok) {
      static char store[256];
      auto match_in_store = [&](const std::string &pat, const Pattern &pp, const char *what) -> std::string {
        if (pat.size() + 1 > sizeof store) return "";
        memset(store, 0, sizeof store);
        memcpy(store, pat.c_str(), pat.size());
        bool got = rtosc_match(store, buf, nullptr);
        bool pm = refmatch::path_matches(pp, c.address);
        refmatch::Expect te = refmatch::types_expect(pp, c.tags);
        if (pm && te == refmatch::MUST && !got) return std::string(what) + " pattern \"" + pat + "\" (in reused storage) rejects \"" + c.address + "\" ,\"" + c.tags + "\"";
        if ((!pm || te == refmatch::MUST_NOT) && got) return std::string(what) + " pattern \"" + pat + "\" (in reused storage) accepts \"" + c.address + "\" ,\"" + c.tags + "\"";
        return "";
      };
      std::string r = match_in_store(c.pattern, p, "first");
      if (r.empty()) r = match_in_store(c.pattern2, p2, "second");
      if (!r.empty() && !(vf::known("alt-no-backtrack"))) return r;
      if (!r.empty()) return r;
      ctx.count("class.second_pattern_in_same_storage");
    }
  }
  // the hashed dispatch path has its own copies of the matcher: a table of the port and three decoys must call the port exactly
  // when the pattern language says the message matches
  {
    static int hits;
    hits = 0;
    auto counting = [](const char *, rtosc::RtData &) { hits++; };
    auto silent = [](const char *, rtosc::RtData &) {};
    // three shapes of the table: the port and three decoys; additionally an anagram of a literal name behind it (two names
    // that a hash over character positions cannot tell apart); or the port twice (both entries have to be called)
    const int shape = (int)((c.pattern.size() + c.address.size()) % 3);
    std::string path = c.pattern.substr(0, c.pattern.find(':'));
    std::string anagram(path.rbegin(), path.rend());
    const bool literal_leaf = path.find_first_of("#{/") == std::string::npos && path.size() >= 2 && anagram != path;
    std::vector<rtosc::Port> pv;
    pv.push_back({c.pattern.c_str(), "", nullptr, counting});
    const std::string rep_first(path.size(), path.empty() ? 'a' : path[0]), rep_last(path.size(), path.empty() ? 'a' : path.back());
    if (shape == 1 && literal_leaf) {
      pv.push_back({anagram.c_str(), "", nullptr, silent});
      // and two names of the same length that share a character with each of them, so that no single position tells all four apart
      if (rep_first != path && rep_first != anagram) pv.push_back({rep_first.c_str(), "", nullptr, silent});
      if (rep_last != path && rep_last != anagram && rep_last != rep_first) pv.push_back({rep_last.c_str(), "", nullptr, silent});
    }
    if (shape == 2) pv.push_back({c.pattern.c_str(), "", nullptr, counting});
    pv.push_back({"zz_decoy:", "", nullptr, silent});
    pv.push_back({"yd:", "", nullptr, silent});
    pv.push_back({"xdecoy/", "", nullptr, silent});
    struct DP : rtosc::Ports { explicit DP(const std::vector<rtosc::Port> &v) : rtosc::Ports({}) { ports = v; refreshMagic(); } } table(pv);
    const int expect_hits = shape == 2 ? 2 : 1;
    bool pm = refmatch::path_matches(p, c.address);
    refmatch::Expect te = refmatch::types_expect(p, c.tags);
    for (int with_loc = 0; with_loc < 2; with_loc++) {
      hits = 0;
      char loc[512];
      memset(loc, 0, sizeof loc);
      rtosc::RtData d;
      if (with_loc) { d.loc = loc; d.loc_size = sizeof loc; }
      table.dispatch(buf, d, false);
      const char *how = with_loc ? "with" : "without";
      if (pm && te == refmatch::MUST && hits != expect_hits) return std::string("Ports::dispatch ") + how + " location buffer calls port \"" + c.pattern + "\" " + std::to_string(hits) + " time(s) for \"" + c.address + "\" ,\"" + c.tags + "\", the table holds it " + std::to_string(expect_hits) + " time(s)" + (shape == 1 && literal_leaf ? " (next to its anagram \"" + anagram + "\")" : "");
      if ((!pm || te == refmatch::MUST_NOT) && hits != 0) return std::string("Ports::dispatch ") + how + " location buffer calls port \"" + c.pattern + "\" for \"" + c.address + "\" ,\"" + c.tags + "\" although the message does not match";
    }
    ctx.count(shape == 2 ? "dispatch.port_twice_in_table" : (shape == 1 && literal_leaf) ? "dispatch.port_next_to_its_anagram" : "dispatch.port_and_decoys");
    ctx.count("dispatch.one_port_table");
    { std::string path = c.pattern.substr(0, c.pattern.find(':')); size_t fs = path.find('/'); if (path.find_first_of("#{") == std::string::npos && fs != std::string::npos && fs + 1 < path.size() && path.back() == '/') ctx.count(pm && te == refmatch::MUST ? "dispatch.literal_multi_component_subtree_name.matching" : "dispatch.literal_multi_component_subtree_name.other"); }
  }
  bool special = c.pattern.find_first_of("#{") != std::string::npos || p.trailing_slash || p.has_types;
  // near-miss or hit: shares a first character with something the pattern accepts, or is accepted
  if (special && !v.excluded) ctx.nontriv(vf::fnv(c.pattern + "\1" + c.address + "\1" + c.tags));
  return "";
}

// ---- exhaustive small scope
static std::vector<std::string> enum_patterns(int level) {
  static const std::vector<std::string> atoms = {"a", "b", "ab", "#1", "#2", "#3", "#10", "#12", "{a,b}", "{a,ab}", "{ab,a}", "{,a}", "{a,}", "{a}", "{ab,ac}", "{b,c,a}", "/"};
  std::vector<std::string> paths;
  auto ok_join = [](const std::string &l, const std::string &r) { return !(l[0] == '#' && r[0] == '#') && !(l == "/" && r == "/"); };
  for (auto &a : atoms) if (a != "/") paths.push_back(a);
  for (auto &a : atoms) for (auto &b : atoms) if (a != "/" && ok_join(a, b)) paths.push_back(a + b);
  if (level >= 3)
    for (auto &a : atoms) for (auto &b : atoms) for (auto &c : atoms)
      if (a != "/" && ok_join(a, b) && ok_join(b, c) && (a.size() > 1 || b.size() > 1 || c.size() > 1)) paths.push_back(a + b + c);
  std::vector<std::string> out;
  size_t k = 0;
  for (auto &p : paths) {
    std::vector<std::string> forms = {p};
    if (p.back() != '/') forms.push_back(p + "/");
    for (auto &f : forms) {
      // two type specs per path form, rotating through the list (the type verdict is independent of the path)
      out.push_back(f + TYPESPECS[k % TYPESPECS.size()]);
      out.push_back(f + TYPESPECS[(k + 3) % TYPESPECS.size()]);
      k++;
    }
  }
  return out;
}

std::string vf_enumerate(vf::Ctx &ctx, int worker, int nworkers, long budget) {
  // budget = L*10 + level : address length bound L, pattern level (2|3)
  int L = (int)(budget / 10), level = (int)(budget % 10);
  std::vector<std::string> pats = enum_patterns(level);
  std::vector<Pattern> parsed;
  for (auto &s : pats) parsed.push_back(refmatch::parse(s));
  static const std::string AL = "abcd/01239_";
  std::vector<std::vector<refmatch::Expect>> texp(pats.size());
  for (size_t i = 0; i < pats.size(); i++) for (auto &t : TAGSETS) texp[i].push_back(refmatch::types_expect(parsed[i], t));
  uint64_t pairs = 0, interesting = 0, excluded = 0, unspec_acc = 0, unspec_rej = 0;
  uint64_t total = 1;
  char bufs[9][128];
  for (int len = 1; len <= L; len++) {
    total *= 11;
    for (uint64_t x = (uint64_t)worker; x < total; x += (uint64_t)nworkers) {
      std::string a;
      uint64_t y = x;
      for (int i = 0; i < len; i++) { a += AL[y % 11]; y /= 11; }
      for (size_t t = 0; t < TAGSETS.size(); t++) build_msg(bufs[t], sizeof bufs[t], a, TAGSETS[t]);
      for (size_t i = 0; i < pats.size(); i++) {
        const Pattern &p = parsed[i];
        bool pm = refmatch::path_matches(p, a);
        const char *rest = rtosc_match_path(pats[i].c_str(), bufs[0], nullptr);
        bool gotpath = rest != nullptr;
        bool skip = false;
        if (gotpath != pm) {
          if (pm && !gotpath && !refmatch::path_matches_greedy(p, a) && vf::known("alt-no-backtrack")) { excluded += TAGSETS.size(); skip = true; }
          else {
            Case c{pats[i], a, ""};
            Verdict v = judge(pats[i], p, a, "", bufs[0], ctx, false);
            char name[64]; snprintf(name, sizeof name, "/violation-enum-%d.case", worker);
            vf::write_file(vf::G().outdir + name, vf::serialize(c, vf_property()) + "# failure: " + vf::esc(v.fail) + "\n");
            return v.fail;
          }
        }
        if (skip) continue;
        for (size_t t = 0; t < TAGSETS.size(); t++) {
          bool got = rtosc_match(pats[i].c_str(), bufs[t], nullptr);
          refmatch::Expect te = texp[i][t];
          bool must = pm && te == refmatch::MUST, mustnot = !pm || te == refmatch::MUST_NOT;
          pairs++;
          if ((must && !got) || (mustnot && got)) {
            Case c{pats[i], a, TAGSETS[t]};
            Verdict v = judge(pats[i], p, a, TAGSETS[t], bufs[t], ctx, false);
            char name[64]; snprintf(name, sizeof name, "/violation-enum-%d.case", worker);
            vf::write_file(vf::G().outdir + name, vf::serialize(c, vf_property()) + "# failure: " + vf::esc(v.fail) + "\n");
            return v.fail.empty() ? "mismatch" : v.fail;
          }
          if (!must && !mustnot) (got ? unspec_acc : unspec_rej)++;
        }
        // non-trivial: accepted, or near miss (address shares its first character with the pattern text / an alternative)
        if (pm || (!a.empty() && pats[i].find(a[0]) != std::string::npos)) {
          interesting += TAGSETS.size();
          if ((x * 1315423911u + i) % 4099 == 0) ctx.record(true, vf::fnv(pats[i] + "\1" + a), [&] { return "pattern=\"" + pats[i] + "\" address=\"" + a + "\" x 9 tag strings"; });
        }
      }
    }
  }
  // the enumerator counts pairs itself (hashing 1e9 pairs is pointless: they are distinct by construction)
  ctx.evaluations += pairs;
  ctx.count("enum.pairs", pairs);
  ctx.count("enum.nontrivial_pairs_distinct_by_construction", interesting);
  ctx.count("excluded.alt-no-backtrack", excluded);
  ctx.count("unspecified.extension_accepted", unspec_acc);
  ctx.count("unspecified.extension_rejected", unspec_rej);
  if (worker == 0) { ctx.count("enum.patterns", pats.size()); ctx.count("max.enum_address_len", (uint64_t)L); }
  return "";
}
VF_MAIN(Case)
