// C04 - dispatch delivers a message to exactly the port it addresses.
#include "common/ptree.hpp"
#include <algorithm>

struct Case {
  pt::Tree tree;
  std::vector<std::string> addrs, tags;
  template <class A> void io(A &a) { a(tree)(addrs)(tags); }
  std::string describe() const {
    std::string d = tree.describe() + " | msgs:";
    for (size_t i = 0; i < addrs.size(); i++) d += " /" + addrs[i] + " ," + tags[i];
    return d;
  }
};
const char *vf_property() { return "C04"; }
void vf_init() {}

Case vf_generate() {
  Case c;
  c.tree = pt::gen_tree(24);
  // NULL object pointers are outside this property's statement (C09 covers them for walks)
  c.tree.null_ptr[0] = c.tree.null_ptr[1] = false;
  c.tree.null_manyp[0] = c.tree.null_manyp[1] = 0;
  // sub-tree ports whose name spans several components ("cd/ef/", "a#2/b/"): Ports::dispatch matches them like any
  // other pattern; the callback is harness-made (the library's recursion macros cut exactly one component)
  for (int t = 0; t < 5; t++)
    for (auto &p : c.tree.tables[(size_t)t].ports)
      if (p.kind == pt::RECUR && vf::chance(25)) {
        p.kind = pt::MULTI;
        std::string nm;
        int comps = vf::pick<int>(2, 3);
        bool enumerated = vf::chance(40);
        for (int k = 0; k < comps; k++) { nm += pt::gen_stem(0); if (enumerated && vf::chance(50)) nm += "#" + std::to_string(vf::pick<int>(1, 3)); nm += "/"; }
        p.name = nm;
      }
  int n = vf::pick<int>(4, 12);
  for (int i = 0; i < n; i++) {
    std::string tg;
    std::string a = pt::gen_address(c.tree, tg);
    int m = vf::pickn(10);
    if (m >= 5) a = pt::mutate_address(a);
    if (m == 9) a = pt::mutate_address(a);
    if (m == 8) a = vf::strover("abc/01", 1, 6);
    // documented preconditions of Ports::dispatch: no ':' in the address; keep index digit runs short
    bool ok = !a.empty();
    size_t run = 0;
    for (char ch : a) { run = isdigit((unsigned char)ch) ? run + 1 : 0; if (run > 8) ok = false; }
    if (!ok) a = "a";
    c.addrs.push_back(a);
    c.tags.push_back(tg);
  }
  return c;
}

typedef std::tuple<int, int, void *, std::string> Key;  // table, port, obj, loc
static std::string show(const std::vector<Key> &v, const pt::Tree &t) {
  std::string s = "{";
  for (auto &k : v) {
    int tb = std::get<0>(k), p = std::get<1>(k);
    s += "T" + std::to_string(tb) + ":" + (p < 0 ? std::string("<default>") : "\"" + t.tables[(size_t)tb].ports[(size_t)p].name + "\"") + "@" + std::get<3>(k) + " ";
  }
  return s + "}";
}

std::string vf_run(const Case &c, vf::Ctx &ctx) {
  pt::Instance inst(c.tree);
  // every third/fourth case hands the root table over through MergePorts / ClonePorts (derived from the case itself)
  { size_t n = c.tree.tables[0].ports.size() + c.addrs.size(); if (n % 4 == 1) inst.wrap_root(1); else if (n % 4 == 2) inst.wrap_root(2); }
  if (inst.root_mode == 1) ctx.count("root.through_MergePorts"); else if (inst.root_mode == 2) ctx.count("root.through_ClonePorts");
  bool anyhashed = false, anysub = false;
  for (size_t t = 0; t < c.tree.tables.size(); t++) {
    const pt::PTable &tb = c.tree.tables[t];
    if (tb.ports.empty()) continue;
    bool enumd = false;
    for (auto &p : tb.ports) { if (p.name.find('#') != std::string::npos) enumd = true; if (p.subtree()) anysub = true; }
    if (enumd) ctx.count("table.enumerated(linear)");
    else if (inst.built_hashfail[t]) ctx.count("table.hash_failed(linear)");
    else { ctx.count("table.hashed"); anyhashed = true; }
  }
  char loc[1024];
  // in every other case one RtData object serves all messages and its object pointer is set only once (dispatch hands the
  // caller's object back after every callback)
  const bool one_rtdata = c.tree.tables[0].ports.size() % 2 == 0;
  rtosc::RtData dshared;
  dshared.obj = &inst.root;
  if (one_rtdata) ctx.count("case.one_RtData_for_all_messages");
  for (size_t i = 0; i < c.addrs.size(); i++) {
    const std::string &addr = c.addrs[i], &tags = c.tags[i];
    pt::MsgBuf mb("/" + addr, tags);
    std::vector<pt::Instance::Expect> exp;
    bool unspec = false;
    inst.expect(0, &inst.root, addr, tags, "/", exp, unspec);

    // (1) without location buffer
    inst.seen.clear();
    rtosc::RtData d0;
    d0.obj = &inst.root;
    d0.loc = nullptr; d0.loc_size = 0;
    inst.rootports().dispatch(mb.msg(), d0, true);
    std::vector<pt::Seen> s0 = inst.seen;

    // (2) with location buffer
    inst.seen.clear();
    // the location buffer is zeroed once and then reused for all messages of the case (as an application's
    // dispatcher does); in cases with an odd number of messages it is re-zeroed every time
    if (i == 0 || c.addrs.size() % 2) memset(loc, 0, sizeof loc);
    rtosc::RtData dfresh;
    dfresh.obj = &inst.root;
    rtosc::RtData &d1 = one_rtdata ? dshared : dfresh;
    d1.loc = loc; d1.loc_size = sizeof loc;
    inst.rootports().dispatch(mb.msg(), d1, true);
    std::vector<pt::Seen> s1 = inst.seen;
    if (d1.obj != &inst.root) return "after dispatch the RtData object pointer is not the caller's object any more for message /" + addr + " on " + c.tree.describe();

    // (3) with a location buffer that holds exactly the address (and its terminator), at the end of a heap block
    std::vector<pt::Seen> s2;
    {
      inst.seen.clear();
      const size_t ls = addr.size() + 2;   // '/' + address + NUL
      std::unique_ptr<char[]> hl(new char[ls]);
      memset(hl.get(), 0, ls);
      rtosc::RtData d2;
      d2.obj = &inst.root;
      d2.loc = hl.get(); d2.loc_size = ls;
      inst.rootports().dispatch(mb.msg(), d2, true);
      s2 = inst.seen;
    }

    auto keys = [&](const std::vector<pt::Seen> &s, bool with_loc, bool defaults) {
      std::vector<Key> k;
      for (auto &x : s) { if ((x.port < 0) != defaults) continue; k.push_back(Key(x.table, x.port, x.obj, with_loc ? x.loc : "")); }
      std::sort(k.begin(), k.end());
      return k;
    };
    std::vector<Key> e0, e1;
    for (auto &e : exp) { e0.push_back(Key(e.table, e.port, e.obj, "")); e1.push_back(Key(e.table, e.port, e.obj, e.loc)); }
    std::sort(e0.begin(), e0.end());
    std::sort(e1.begin(), e1.end());
    std::string what = " for message /" + addr + " ,\"" + tags + "\" on " + c.tree.describe();
    std::vector<Key> g0 = keys(s0, false, false), g1 = keys(s1, true, false), g1n = keys(s1, false, false);
    if (keys(s2, true, false) != g1 || keys(s2, false, true).size() != keys(s1, false, true).size()) return "callbacks invoked (or the locations they saw) differ when the location buffer holds exactly the address: " + show(keys(s2, true, false), c.tree) + " vs " + show(g1, c.tree) + " for message /" + addr + " on " + c.tree.describe();
    if (g0 != g1n) return "callbacks invoked differ between dispatch without and with a location buffer: without " + show(g0, c.tree) + " with " + show(g1n, c.tree) + what;
    if (!unspec) {
      if (g0 != e0) return "without location buffer: invoked " + show(g0, c.tree) + ", addressed " + show(e0, c.tree) + what;
      if (g1 != e1) return "with location buffer: invoked (port@loc) " + show(g1, c.tree) + ", expected " + show(e1, c.tree) + what;
    } else ctx.count("msg.unspecified_type_extension");
    // each callback saw its own port pointer
    for (auto &x : s1) {
      if (x.port < 0) continue;
      const rtosc::Port *want = &inst.tabs[(size_t)x.table]->ports[(size_t)x.port];
      if (x.table == 0 && inst.root_mode) { if (!x.dport || strcmp(x.dport->name, want->name)) return "callback of a wrapped root port saw a port pointer with another name" + what; continue; }
      if (x.dport != want) return "callback of T" + std::to_string(x.table) + " \"" + c.tree.tables[(size_t)x.table].ports[(size_t)x.port].name + "\" saw a different port pointer in RtData" + what;
    }
    for (auto &x : s0) {
      if (x.port < 0) continue;
      const rtosc::Port *want = &inst.tabs[(size_t)x.table]->ports[(size_t)x.port];
      if (x.table == 0 && inst.root_mode) continue;
      if (x.dport != want) return "callback (no loc) saw a different port pointer in RtData" + what;
    }
    // match count after a root dispatch == leaf callbacks invoked (default handler invocations are counted, not judged)
    size_t dflt = keys(s1, false, true).size();
    if (dflt) ctx.count("msg.default_handler_fired", dflt);
    if ((size_t)d1.matches != g1.size() + dflt) return "d.matches=" + std::to_string(d1.matches) + " but " + std::to_string(g1.size()) + " leaf callbacks (+" + std::to_string(dflt) + " default handler calls) were invoked" + what;
    // the location buffer is restored to the root
    if (strcmp(loc, "/") && strcmp(loc, "")) return std::string("location buffer not restored after dispatch: \"") + loc + "\"" + what;
    ctx.count(exp.empty() ? "msg.addresses_nothing" : (exp.size() == 1 ? "msg.addresses_one_leaf" : "msg.addresses_several"));
  }
  if (anyhashed) ctx.count("case.has_hashed_table");
  if (anyhashed || anysub) ctx.nontriv(vf::fnv(c.describe()));
  return "";
}
std::string vf_enumerate(vf::Ctx &, int, int, long) { return ""; }
VF_MAIN(Case)
