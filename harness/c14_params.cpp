// C14 - parameter ports clamp to their declared range and report every change.
// Ports are assembled at run time: generated name, generated metadata bytes, and the library's own callback
// macros (which read data.port->meta() when they run).
#include "common/vf.hpp"
#include "common/refosc.hpp"
#include "common/ptree.hpp"
#include <rtosc/ports.h>
#include <rtosc/port-sugar.h>
#include <cstdarg>
#include <cmath>

struct Obj {
  char c1 = 0; int i1 = 0; float f1 = 0; bool t1 = false; int o1 = 0; char s1[12] = {0};
  char ai[4] = {0, 0, 0, 0}; float af[4] = {0, 0, 0, 0}; bool at[4] = {false, false, false, false}; int ao[4] = {0, 0, 0, 0};
  char guard_after = 0x5a;
};
#define rObject Obj
typedef std::function<void(const char *, rtosc::RtData &)> cb_t;
static cb_t kind_cb(int k) {
  switch (k) {
    case 0: return rParamCb(c1);
    case 1: return rParamICb(i1);
    case 2: return rParamFCb(f1);
    case 3: return rToggleCb(t1);
    case 4: return rOptionCb(o1);
    case 5: return rStringCb(s1, 12);
    case 6: return rArrayICb(ai);
    case 7: return rArrayFCb(af);
    case 8: return rArrayTCb(at);
    default: return rArrayOptionCb(ao);
  }
}
#undef rObject
static const char *KSPEC[] = {"::c", "::i", "::f", "::T:F", "::i:c:S", "::s", "::i", "::f", "::T:F", "::i:c:S"};
static const char *KNAME[] = {"rParam", "rParamI", "rParamF", "rToggle", "rOption", "rString", "rArrayI", "rArrayF", "rArrayT", "rArrayOption"};
static bool is_array(int k) { return k >= 6; }

struct Op {
  bool query = false;
  int idx = 0;
  char tag = 'i';      // i c f T F S s
  int64_t iv = 0; double fv = 0; std::string sv;
  template <class A> void io(A &a) { a(query)(idx)(tag)(iv)(fv)(sv); }
};
struct Case {
  int kind = 0;
  std::string stem;
  int n = 4;                       // array length in the port name
  bool has_min = false, has_max = false;
  std::string mins, maxs;          // spelled as the metadata would carry them
  std::vector<std::string> opts;   // option symbols (kinds 4, 9)
  std::vector<Op> ops;
  template <class A> void io(A &a) { a(kind)(stem)(n)(has_min)(has_max)(mins)(maxs)(opts)(ops); }
  std::string portname() const { return stem + (is_array(kind) ? "#" + std::to_string(n) : "") + KSPEC[kind]; }
  std::string describe() const {
    std::string d = std::string(KNAME[kind]) + " \"" + portname() + "\"" + (has_min ? " min=" + mins : "") + (has_max ? " max=" + maxs : "");
    if (!opts.empty()) { d += " options="; for (auto &o : opts) d += o + ","; }
    d += " ops:";
    for (auto &o : ops) {
      d += " [" + std::to_string(o.idx) + "]";
      if (o.query) d += "?";
      else if (o.tag == 'f') d += "=" + std::to_string(o.fv) + "f";
      else if (o.tag == 's' || o.tag == 'S') d += "=\"" + vf::esc(o.sv) + "\"" + o.tag;
      else if (o.tag == 'T' || o.tag == 'F') d += std::string("=") + o.tag;
      else d += "=" + std::to_string(o.iv) + o.tag;
    }
    return d;
  }
};
const char *vf_property() { return "C14"; }
void vf_init() {}

Case vf_generate() {
  Case c;
  c.kind = vf::pickn(10);
  c.stem = vf::oneof<std::string>({"p", "amp", "Pvolume", "x_y", "osc2amp", "v1", "a"});
  c.n = vf::pick<int>(1, 4);
  bool charkind = c.kind == 0 || c.kind == 6;
  bool fl = c.kind == 2 || c.kind == 7;
  bool numeric = c.kind != 3 && c.kind != 5 && c.kind != 8;
  if (c.kind == 4 || c.kind == 9) {
    int no = vf::pick<int>(1, 5);
    // symbol sets in which an earlier symbol is a prefix of a later one are included on purpose
    static const char *SY[3][5] = {{"sine", "saw", "square", "tri", "noise"}, {"ch1", "ch10", "ch11", "ch2", "ch"}, {"on", "once", "one", "off", "o"}};
    int set = vf::pickn(3);
    for (int i = 0; i < no; i++) c.opts.push_back(SY[set][i]);
  }
  if (numeric) {
    int lo, hi;
    if (charkind) { lo = vf::pick<int>(-128, 100); hi = vf::pick<int>(lo, 127); }
    else if (!c.opts.empty()) { lo = 0; hi = (int)c.opts.size() - 1 + vf::pickn(3); }   // must contain every mapped index
    else { lo = vf::pick<int>(-1000, 1000); hi = lo + vf::pick<int>(0, 2000); if (vf::chance(10)) { lo = -2147483647 - 1; } if (vf::chance(10)) hi = 2147483647; }
    c.has_min = vf::chance(65); c.has_max = vf::chance(65);
    if (fl) {
      double flo = (double)vf::pick<int>(-400, 400) / 8.0, fhi = flo + (double)vf::pick<int>(0, 800) / 8.0;
      // also bounds that no float represents exactly (0.1, 100.2, -0.3): the stored float differs from the declared double
      if (vf::chance(40)) { int a10 = vf::pick<int>(-500, 500), w10 = vf::pick<int>(0, 1000); flo = a10 / 10.0; fhi = (a10 + w10) / 10.0; }
      char b[64];
      snprintf(b, sizeof b, "%g", flo); c.mins = b;
      snprintf(b, sizeof b, "%g", fhi); c.maxs = b;
    } else { c.mins = std::to_string(lo); c.maxs = std::to_string(hi); }
  }
  int nops = vf::sized<int>(1, 12);
  for (int i = 0; i < nops; i++) {
    Op o;
    o.idx = is_array(c.kind) ? vf::pickn(c.n) : 0;
    o.query = vf::chance(25);
    if (!o.query) {
      double lo = c.has_min ? atof(c.mins.c_str()) : -50, hi = c.has_max ? atof(c.maxs.c_str()) : 50;
      auto around = [&]() -> int64_t {
        switch (vf::pickn(6)) {
          case 0: return (int64_t)lo; case 1: return (int64_t)hi; case 2: return (int64_t)lo - vf::pick<int>(1, 5); case 3: return (int64_t)hi + vf::pick<int>(1, 5);
          case 4: return vf::chance(70) ? (int64_t)(lo + (hi - lo) / 2) : vf::oneof<int64_t>({16777216, 2147483644, -2147483645, 1073741824, 33554432}) + vf::pick<int>(-2, 2);   // also neighbours beyond 2^24 (no float tells them apart)
          default: return vf::pick<int>(-130, 130);
        }
      };
      switch (c.kind) {
        case 0: case 6: o.tag = c.kind == 0 ? 'c' : 'i'; o.iv = std::max<int64_t>(-128, std::min<int64_t>(127, around())); break;
        case 1: o.tag = 'i'; o.iv = vf::chance(15) ? (int64_t)vf::oneof<int>({2147483647, -2147483647 - 1}) : std::max<int64_t>(-2147483647 - 1, std::min<int64_t>(2147483647, around())); break;
        case 2: case 7: o.tag = 'f'; o.fv = vf::chance(50) ? (double)around() + vf::pick<int>(-7, 7) / 8.0 : (double)(float)(lo + (hi - lo) * vf::pick<int>(-4, 12) / 8.0); if (vf::chance(5)) o.fv = vf::coin() ? 3.0e38 : -3.0e38; break;
        case 3: case 8: o.tag = vf::coin() ? 'T' : 'F'; break;
        case 4: case 9: {
          int k = vf::pickn(3);
          if (k == 0) { o.tag = 'S'; o.sv = c.opts[(size_t)vf::pickn((int)c.opts.size())]; }
          else { o.tag = k == 1 ? 'i' : 'c'; o.iv = vf::pick<int>(-3, (int)c.opts.size() + 3); }
          break;
        }
        default: o.tag = 's'; o.sv = vf::strover("abcXYZ 09", 0, 16); break;
      }
    }
    c.ops.push_back(o);
  }
  return c;
}

struct Event { bool bcast; std::string msg; bool optional = false; };
struct Capture : rtosc::RtData {
  std::vector<Event> ev;
  void take(bool b, const char *path, const char *args, va_list va) {
    char buf[2048];
    size_t l = rtosc_vmessage(buf, sizeof buf, path, args, va);
    ev.push_back({b, std::string(buf, l)});
  }
  void reply(const char *path, const char *args, ...) override { va_list va; va_start(va, args); take(false, path, args, va); va_end(va); }
  void broadcast(const char *path, const char *args, ...) override { va_list va; va_start(va, args); take(true, path, args, va); va_end(va); }
  void reply(const char *msg) override { ev.push_back({false, std::string(msg, rtosc_message_length(msg, 2048))}); }
  void broadcast(const char *msg) override { ev.push_back({true, std::string(msg, rtosc_message_length(msg, 2048))}); }
};

static std::string show_msg(const std::string &m) {
  refosc::Decoded d = refosc::decode((const unsigned char *)m.data(), m.size());
  if (d.st != refosc::OK) return "<undecodable " + std::to_string(m.size()) + " bytes>";
  std::string s = d.address + " ," + d.tags + " (";
  for (auto &v : d.vals) {
    char b[64];
    if (v.t == 's' || v.t == 'S') s += "\"" + vf::esc(m.substr(v.off, v.len)) + "\" ";
    else if (v.t == 'f') { uint32_t u = (uint32_t)v.u; float f; memcpy(&f, &u, 4); snprintf(b, sizeof b, "%g ", f); s += b; }
    else if (refosc::has_payload(v.t)) { snprintf(b, sizeof b, "%d ", (int)(int32_t)(uint32_t)v.u); s += b; }
    else { s += v.t; s += ' '; }
  }
  return s + ")";
}
static refosc::Val VI(char t, int64_t i) { refosc::Val v; v.t = t; v.u = (uint32_t)(int32_t)i; return v; }
static refosc::Val VF(float f) { refosc::Val v; v.t = 'f'; uint32_t u; memcpy(&u, &f, 4); v.u = u; return v; }
static refosc::Val VS(char t, const std::string &s) { refosc::Val v; v.t = t; v.s = s; return v; }
static refosc::Val VT(char t) { refosc::Val v; v.t = t; return v; }

std::string vf_run(const Case &c, vf::Ctx &ctx) {
  // metadata block
  std::string meta = ":parameter" + std::string(1, '\0');
  auto map = [&](const std::string &k, const std::string &v) { meta += ":" + k + std::string(1, '\0') + "=" + v + std::string(1, '\0'); };
  // every third case declares rSpecial(disable) in front of the range (":special\0disable\0": a property followed by a
  // string that is no '=value'); derived from the case, so that case files need no new field
  if ((c.stem.size() + c.ops.size() + (size_t)c.n) % 3 == 0) { meta += ":special" + std::string(1, '\0') + "disable" + std::string(1, '\0'); ctx.count("class.rSpecial_before_range"); }
  if (c.has_min) map("min", c.mins);
  if (c.has_max) map("max", c.maxs);
  for (size_t i = 0; i < c.opts.size(); i++) map("map " + std::to_string(i), c.opts[i]);
  map("documentation", "generated");
  std::unique_ptr<char[]> mb(new char[meta.size() + 1]);
  memcpy(mb.get(), meta.data(), meta.size());
  mb.get()[meta.size()] = 0;
  std::string pname = c.portname();
  std::vector<rtosc::Port> pv;
  pv.push_back(rtosc::Port{"zz_decoy::i", "", nullptr, [](const char *, rtosc::RtData &) {}});
  pv.push_back(rtosc::Port{pname.c_str(), mb.get(), nullptr, kind_cb(c.kind)});
  pt::DynPorts inner(pv);
  // every second configuration nests the table below a sub-tree port, so that the port's full address has two levels
  bool nested = (c.stem.size() + c.ops.size()) % 2 == 1;
  // nested: the same port exists at the root (object 0) and below "grp/" (object 1); the sub-tree callback hands the child
  // object down the way rRecurCb does (dispatch gives the caller's object back afterwards), operations alternate between
  // the two levels, and the RtData object pointer set before the first message is what all later messages start from
  Obj objs[2], models[2];
  Obj *child = &objs[1];
  std::vector<rtosc::Port> ov;
  ov.push_back(rtosc::Port{"zz_top::i", "", nullptr, [](const char *, rtosc::RtData &) {}});
  ov.push_back(rtosc::Port{pname.c_str(), mb.get(), nullptr, kind_cb(c.kind)});
  ov.push_back(rtosc::Port{"grp/", "", &inner, [&inner, child](const char *m, rtosc::RtData &d) { d.obj = child; while (*m && *m != '/') ++m; if (*m) ++m; inner.dispatch(m, d); }});
  pt::DynPorts outer(ov);
  rtosc::Ports &ports = nested ? (rtosc::Ports &)outer : (rtosc::Ports &)inner;
  void *carry = &objs[0];
  bool nontriv = false;
  std::string D = " | " + c.describe();
  for (size_t oi = 0; oi < c.ops.size(); oi++) {
    const Op &op = c.ops[oi];
    const int tg = nested ? (int)((oi + c.stem.size()) % 2) : 0;
    Obj &obj = objs[tg], &model = models[tg];
    const std::string prefix = tg ? "/grp/" : "/";
    std::string addr = prefix + c.stem + (is_array(c.kind) ? std::to_string(op.idx) : "");
    std::string tags;
    std::vector<refosc::Val> vals;
    if (!op.query) {
      tags = std::string(1, op.tag);
      switch (op.tag) {
        case 'i': case 'c': vals.push_back(VI(op.tag, op.iv)); break;
        case 'f': vals.push_back(VF((float)op.fv)); break;
        case 's': case 'S': vals.push_back(VS(op.tag, op.sv)); break;
        default: vals.push_back(VT(op.tag)); break;
      }
    }
    pt::MsgBuf msg(addr, tags, &vals);
    Capture d;
    char loc[256];
    memset(loc, 0, sizeof loc);
    d.obj = carry;
    d.loc = loc; d.loc_size = sizeof loc;
    ports.dispatch(msg.msg(), d, true);
    carry = d.obj;
    std::string W = " at op " + std::to_string(oi) + D;
    if (d.matches != 1) return "message " + addr + " ," + tags + " matched " + std::to_string(d.matches) + " ports" + W;

    // ---- model
    std::vector<Event> want;
    double lo = c.has_min ? atof(c.mins.c_str()) : 0, hi = c.has_max ? atof(c.maxs.c_str()) : 0;
    int ilo = c.has_min ? atoi(c.mins.c_str()) : 0, ihi = c.has_max ? atoi(c.maxs.c_str()) : 0;
    auto M = [&](const std::string &path, const std::string &t, std::vector<refosc::Val> v) { return refosc::encode(path, t, v); };
    int k = c.kind, ix = op.idx;
    bool optional_bcast = false;   // unchanged set: the statement only regulates changes
    if (k == 0 || k == 6) {
      char &f = k == 0 ? model.c1 : model.ai[ix];
      char t = k == 0 ? 'c' : 'i';
      if (op.query) want.push_back({false, M(addr, std::string(1, t), {VI(t, f)})});
      else {
        char var = (char)op.iv;
        if (c.has_min && var < (char)ilo) var = (char)ilo;
        if (c.has_max && var > (char)ihi) var = (char)ihi;
        bool changed = var != f;
        if (changed) want.push_back({false, M("/undo_change", std::string("s") + t + t, {VS('s', addr), VI(t, f), VI(t, var)})});
        else nontriv = true;
        f = var;
        want.push_back({true, M(addr, std::string(1, t), {VI(t, f)}), !changed});
        if (op.iv < ilo || op.iv > ihi) nontriv = true;
      }
    } else if (k == 1) {
      if (op.query) want.push_back({false, M(addr, "i", {VI('i', model.i1)})});
      else {
        int var = (int)op.iv;
        if (c.has_min && var < ilo) var = ilo;
        if (c.has_max && var > ihi) var = ihi;
        bool changed = var != model.i1;
        if (changed) want.push_back({false, M("/undo_change", "sii", {VS('s', addr), VI('i', model.i1), VI('i', var)})});
        else nontriv = true;
        if (var != (int)op.iv) nontriv = true;
        model.i1 = var;
        want.push_back({true, M(addr, "i", {VI('i', var)}), !changed});
      }
    } else if (k == 2 || k == 7) {
      float &f = k == 2 ? model.f1 : model.af[ix];
      if (op.query) want.push_back({false, M(addr, "f", {VF(f)})});
      else {
        float var = (float)op.fv;
        if (c.has_min && var < (float)lo) var = (float)lo;
        if (c.has_max && var > (float)hi) var = (float)hi;
        bool changed = var != f;
        if (changed) want.push_back({false, M("/undo_change", "sff", {VS('s', addr), VF(f), VF(var)})});
        else nontriv = true;
        if (var != (float)op.fv) nontriv = true;
        f = var;
        want.push_back({true, M(addr, "f", {VF(var)}), !changed});
      }
    } else if (k == 3 || k == 8) {
      bool &f = k == 3 ? model.t1 : model.at[ix];
      if (op.query) want.push_back({false, M(addr, f ? "T" : "F", {VT(f ? 'T' : 'F')})});
      else {
        bool nv = op.tag == 'T';
        want.push_back({true, M(addr, nv ? "T" : "F", {VT(nv ? 'T' : 'F')}), nv == f});
        if (nv == f) nontriv = true;
        f = nv;
      }
    } else if (k == 4 || k == 9) {
      int &f = k == 4 ? model.o1 : model.ao[ix];
      if (op.query) want.push_back({false, M(addr, "i", {VI('i', f)})});
      else {
        int var;
        std::string btag = "i";
        if (op.tag == 'S') { var = 0; for (size_t i = 0; i < c.opts.size(); i++) if (c.opts[i] == op.sv) var = (int)i; }
        else {
          var = (int)op.iv; btag = std::string(1, op.tag);
          if (c.has_min && var < ilo) var = ilo;
          if (c.has_max && var > ihi) var = ihi;
          if (var != (int)op.iv) nontriv = true;
        }
        bool changed = var != f;
        if (changed) want.push_back({false, M("/undo_change", "sii", {VS('s', addr), VI('i', f), VI('i', var)})});
        else nontriv = true;
        f = var;
        want.push_back({true, M(addr, btag, {VI(btag[0], var)}), !changed});
      }
    } else {  // string
      if (op.query) want.push_back({false, M(addr, "s", {VS('s', model.s1)})});
      else {
        std::string t = op.sv.substr(0, 11);
        if (t.size() != op.sv.size()) nontriv = true;
        bool changed = t != model.s1;
        memset(model.s1, 0, sizeof model.s1);
        memcpy(model.s1, t.data(), t.size());
        want.push_back({true, M(addr, "s", {VS('s', t)}), !changed});
      }
    }
    (void)optional_bcast;
    if (ix >= 1) nontriv = true;

    // ---- compare events
    auto show = [&](const std::vector<Event> &v) { std::string s = "{"; for (auto &e : v) s += std::string(e.bcast ? "broadcast " : "reply ") + show_msg(e.msg) + "; "; return s + "}"; };
    // a set that leaves the stored value unchanged may or may not broadcast (the statement only regulates changes),
    // but whatever is sent must be what the model expects to be sendable: compare after removing such broadcasts
    std::vector<Event> got = d.ev;
    {
      size_t j = 0;
      bool ok = true;
      for (size_t i = 0; i < want.size() && ok; i++) {
        if (j < got.size() && got[j].bcast == want[i].bcast && got[j].msg == want[i].msg) j++;
        else if (!want[i].optional) ok = false;
      }
      if (!ok || j != got.size()) return "events " + show(got) + ", expected " + show(want) + " (broadcasts of an unchanged value are optional)" + W;
    }
    // ---- compare stored state: the addressed field as modelled, every other byte untouched
    // (strings: bytes behind the terminator are not part of the value)
    {
      const Obj &o2 = objs[1 - tg], &m2 = models[1 - tg];
      bool same2 = o2.c1 == m2.c1 && o2.i1 == m2.i1 && !memcmp(&o2.f1, &m2.f1, 4) && o2.t1 == m2.t1 && o2.o1 == m2.o1 && !strcmp(o2.s1, m2.s1) && !memcmp(o2.ai, m2.ai, 4) && !memcmp(o2.af, m2.af, 16) && !memcmp(o2.at, m2.at, 4) && !memcmp(o2.ao, m2.ao, 16) && o2.guard_after == 0x5a;
      if (!same2) return std::string("a message for the ") + (tg ? "nested" : "root") + " level changed the object of the other level" + W;
    }
    bool same = obj.c1 == model.c1 && obj.i1 == model.i1 && !memcmp(&obj.f1, &model.f1, 4) && obj.t1 == model.t1 && obj.o1 == model.o1 && !strcmp(obj.s1, model.s1) && obj.s1[11] == 0 &&
                !memcmp(obj.ai, model.ai, 4) && !memcmp(obj.af, model.af, 16) && !memcmp(obj.at, model.at, 4) && !memcmp(obj.ao, model.ao, 16) && obj.guard_after == 0x5a;
    if (!same) {
      char b[256];
      snprintf(b, sizeof b, "stored state differs from the model: c1=%d/%d i1=%d/%d f1=%g/%g t1=%d/%d o1=%d/%d s1=\"%s\"/\"%s\" ai=%d,%d,%d,%d/%d,%d,%d,%d", obj.c1, model.c1, obj.i1, model.i1, obj.f1, model.f1, obj.t1, model.t1, obj.o1, model.o1, obj.s1, model.s1,
               obj.ai[0], obj.ai[1], obj.ai[2], obj.ai[3], model.ai[0], model.ai[1], model.ai[2], model.ai[3]);
      return std::string(b) + W;
    }
  }
  ctx.count(std::string("kind.") + KNAME[c.kind]);
  if (nested) ctx.count("class.nested_address");
  if (c.stem.find_first_of("0123456789") != std::string::npos && is_array(c.kind)) ctx.count("class.array_stem_with_digit");
  if (nontriv) ctx.nontriv(vf::fnv(c.describe()));
  return "";
}
std::string vf_enumerate(vf::Ctx &, int, int, long) { return ""; }
VF_MAIN(Case)
