// C02 - fixed-buffer discipline: capacity sweep over message and bundle construction,
// ThreadLink writes around MaxMsg, RtData::reply/broadcast around their 8192-byte buffer.
#include "common/bundlegen.hpp"
#include <rtosc/thread-link.h>
#include <rtosc/ports.h>

struct Case {
  int kind = 0;            // 0 message, 1 bundle, 2 threadlink, 3 rtdata reply/broadcast
  mg::Msg m;
  bg::Elem b;
  int tl_maxmsg = 64;      // kind 2
  int pad_to = 0;          // kind 2/3: string payload stretched so the message size lands at pad_to
  template <class A> void io(A &a) { a(kind)(m)(b)(tl_maxmsg)(pad_to); }
  std::string describe() const {
    switch (kind) {
      case 0: return "message capacity sweep: " + m.describe();
      case 1: return "bundle capacity sweep: " + b.describe();
      case 2: return "ThreadLink MaxMsg=" + std::to_string(tl_maxmsg) + " size=" + std::to_string(m.ref().size()) + " " + m.describe();
      default: return "RtData reply/broadcast size=" + std::to_string(m.ref().size()) + " " + m.describe();
    }
  }
};
const char *vf_property() { return "C02"; }
void vf_init() {}

// a message "/p" + "s" whose encoded size is exactly (rounded to 4) target
static mg::Msg sized_msg(size_t target, const std::string &tags_extra) {
  mg::Msg m;
  m.address = "/p";
  m.tags = "s" + tags_extra;
  refosc::Val v; v.t = 's';
  m.vals.push_back(v);
  for (char t : tags_extra) m.vals.push_back(mg::gen_val(t, 8));
  size_t base = m.ref().size();           // with empty string (4 bytes of padding)
  if (target > base) m.vals[0].s.assign(target - base, 'x');
  return m;
}

Case vf_generate() {
  Case c;
  int k = vf::pickn(20);
  if (k < 11) { c.kind = 0; c.m = mg::gen_msg(12, vf::chance(15) ? 4200 : 120, 40); }
  else if (k < 15) { c.kind = 1; c.b = bg::gen_elem(vf::pick<int>(1, 3), 6, true); }
  else if (k < 18) {
    c.kind = 2;
    c.tl_maxmsg = vf::oneof<int>({16, 32, 64, 100, 256});
    c.pad_to = c.tl_maxmsg + vf::pick<int>(-12, 12);
    if (c.pad_to < 12) c.pad_to = 12;
    c.m = sized_msg((size_t)c.pad_to, vf::coin() ? "" : "i");
  } else {
    c.kind = 3;
    c.pad_to = 8192 + vf::pick<int>(-16, 16);
    c.m = sized_msg((size_t)c.pad_to, vf::coin() ? "" : "i");
  }
  return c;
}

static std::string sweep_check(const char *what, size_t cap, size_t need, size_t ret, const char *buf, const std::string &ref) {
  if (cap < need) {
    if (ret != 0) return std::string(what) + ": capacity " + std::to_string(cap) + " < needed " + std::to_string(need) + " but returned " + std::to_string(ret);
    for (size_t i = 0; i < cap; i++)
      if (buf[i]) return std::string(what) + ": capacity " + std::to_string(cap) + " < needed " + std::to_string(need) + ": buffer not zero-filled at offset " + std::to_string(i);
  } else {
    if (ret != need) return std::string(what) + ": capacity " + std::to_string(cap) + " >= needed " + std::to_string(need) + " but returned " + std::to_string(ret);
    if (memcmp(buf, ref.data(), need)) return std::string(what) + ": capacity " + std::to_string(cap) + ": bytes differ from reference";
  }
  return "";
}

static std::vector<size_t> capacities(size_t need) {
  std::vector<size_t> caps;
  if (need <= 600) { for (size_t c = 0; c <= need + 8; c++) caps.push_back(c); return caps; }
  for (size_t c = 0; c <= 24; c++) caps.push_back(c);
  for (size_t c = 25; c + 40 < need; c += 97) caps.push_back(c);
  for (size_t c = need - 40; c <= need + 8; c++) caps.push_back(c);
  return caps;
}

struct Cap : rtosc::RtData {
  std::vector<std::string> got;
  size_t expect = 0;
  void reply(const char *msg) override {
    // record up to expect+? bytes: the message as rtosc measures it inside the 8192 byte buffer
    size_t l = rtosc_message_length(msg, 8192);
    got.push_back(std::string(msg, l ? l : 8192));
  }
  void broadcast(const char *msg) override { reply(msg); }
  using rtosc::RtData::reply;
  using rtosc::RtData::broadcast;
};

std::string vf_run(const Case &c, vf::Ctx &ctx) {
  std::string e;
  if (c.kind == 0) {
    const std::string ref = c.m.ref();
    const size_t need = ref.size();
    mg::ArgPack p = mg::pack(c.m);
    const rtosc_arg_t *args = p.args.empty() ? nullptr : p.args.data();
    // NULL destination
    size_t r0 = rtosc_amessage(nullptr, 0, c.m.address.c_str(), c.m.tags.c_str(), args);
    size_t r1 = rtosc_amessage(nullptr, 12345, c.m.address.c_str(), c.m.tags.c_str(), args);
    if (r0 != need || r1 != need) return "NULL destination: returned " + std::to_string(r0) + "/" + std::to_string(r1) + ", needed " + std::to_string(need);
    if (!p.has_snan_float) {
      std::vector<uint64_t> sl = p.slots;
      size_t r2 = mg::call_vmessage(nullptr, 0, c.m.address.c_str(), c.m.tags.c_str(), sl);
      if (r2 != need) return "NULL destination (varargs): returned " + std::to_string(r2) + ", needed " + std::to_string(need);
    }
    std::vector<rtosc_arg_val_t> av = mg::to_argvals(c.m, p);
    const std::string flat = mg::strip_brackets(c.m.tags);
    const std::string ref2 = refosc::encode(c.m.address, flat, c.m.vals);
    size_t ncalls = 0;
    for (size_t cap : capacities(need)) {
      std::unique_ptr<char[]> hb(new char[cap ? cap : 1]);
      char *buf = cap ? hb.get() : hb.get() + 1;  // cap 0: one past a 1-byte block, nothing addressable
      memset(hb.get(), 0xAA, cap ? cap : 1);
      size_t r = rtosc_amessage(buf, cap, c.m.address.c_str(), c.m.tags.c_str(), args);
      ncalls++;
      if (!(e = sweep_check("rtosc_amessage", cap, need, r, buf, ref)).empty()) return e;
      bool near = cap + 4 >= need && cap <= need + 4;
      if (near || cap == 0) {
        if (!p.has_snan_float) {
          memset(hb.get(), 0xAA, cap ? cap : 1);
          std::vector<uint64_t> sl = p.slots;
          r = mg::call_vmessage(buf, cap, c.m.address.c_str(), c.m.tags.c_str(), sl);
          ncalls++;
          if (!(e = sweep_check("rtosc_vmessage", cap, need, r, buf, ref)).empty()) return e;
        }
      }
    }
    // destinations that do not start on a 4-byte boundary (a field of a packed record, a buffer behind a one-byte header):
    // the layout is relative to the start of the message; capacities around the exact fit, guard bytes in front, the end of
    // the heap block right behind the capacity
    for (size_t off = 1; off <= 3; off++)
      for (size_t cap : {need > 2 ? need - 2 : (size_t)0, need, need + 1, need + 3}) {
        std::unique_ptr<char[]> hb(new char[off + cap]);
        memset(hb.get(), 0xAA, off + cap);
        char *buf = hb.get() + off;
        size_t r = rtosc_amessage(buf, cap, c.m.address.c_str(), c.m.tags.c_str(), args);
        ncalls++;
        if (!(e = sweep_check("rtosc_amessage (destination not 4-byte aligned)", cap, need, r, buf, ref)).empty()) return e;
        for (size_t i = 0; i < off; i++) if ((unsigned char)hb.get()[i] != 0xAA) return "rtosc_amessage (destination not 4-byte aligned) writes in front of the destination";
      }
    // arg-val constructor: its own needed size (brackets are not representable there)
    for (size_t cap : {(size_t)0, ref2.size() - 4, ref2.size() - 1, ref2.size(), ref2.size() + 1}) {
      std::unique_ptr<char[]> hb(new char[cap ? cap : 1]);
      char *buf = cap ? hb.get() : hb.get() + 1;
      memset(hb.get(), 0xAA, cap ? cap : 1);
      size_t r = rtosc_avmessage(buf, cap, c.m.address.c_str(), av.size(), av.data());
      ncalls++;
      if (!(e = sweep_check("rtosc_avmessage", cap, ref2.size(), r, buf, ref2)).empty()) return e;
    }
    ctx.count("calls.message", ncalls);
    ctx.nontriv(vf::fnv(ref));  // every message case includes capacities within +-4 of need
    if (need >= 4096) ctx.count("message.ge4k");
    return "";
  }
  if (c.kind == 1) {
    const std::string ref = c.b.ref();
    const size_t need = ref.size();
    std::vector<bg::Block> blocks;
    std::vector<const char *> ptrs;
    for (auto &k : c.b.kids) blocks.emplace_back(k.ref());
    for (auto &b : blocks) ptrs.push_back(b.p.get());
    size_t ncalls = 0;
    for (size_t cap : capacities(need)) {
      std::unique_ptr<char[]> hb(new char[cap ? cap : 1]);
      char *buf = cap ? hb.get() : hb.get() + 1;
      memset(hb.get(), 0xAA, cap ? cap : 1);
      size_t r = bg::call_bundle(buf, cap, c.b.tt, ptrs);
      ncalls++;
      if (!(e = sweep_check("rtosc_bundle", cap, need, r, buf, ref)).empty()) return e;
    }
    ctx.count("calls.bundle", ncalls);
    ctx.count("bundle.elements." + std::to_string(c.b.kids.size()));
    ctx.nontriv(vf::fnv(ref));
    return "";
  }
  if (c.kind == 2) {
    // ThreadLink: an over-long message queues nothing; neighbours stay intact
    const std::string ref = c.m.ref();
    const size_t maxmsg = (size_t)c.tl_maxmsg;
    mg::ArgPack p = mg::pack(c.m);
    for (int api = 0; api < 3; api++) {
      rtosc::ThreadLink tl(maxmsg, 4);
      tl.write("/a", "i", 1);
      std::string before(tl.read(), 12);
      if (tl.hasNext()) return "ThreadLink: unexpected second message";
      bool fits = ref.size() <= maxmsg;
      if (api == 0) tl.writeArray(c.m.address.c_str(), c.m.tags.c_str(), p.args.data());
      else if (api == 1) {
        if (c.m.tags == "s") tl.write(c.m.address.c_str(), "s", c.m.vals[0].s.c_str());
        else tl.write(c.m.address.c_str(), "si", c.m.vals[0].s.c_str(), (int)(uint32_t)c.m.vals[1].u);
      } else {
        bg::Block blk(ref);
        tl.raw_write(blk.p.get());
      }
      tl.write("/z", "i", 7);
      const char *names[3] = {"writeArray", "write", "raw_write"};
      if (fits) {
        if (!tl.hasNext()) return std::string("ThreadLink::") + names[api] + ": fitting message (" + std::to_string(ref.size()) + " <= MaxMsg) was not queued";
        const char *r = tl.read();
        if (memcmp(r, ref.data(), ref.size())) return std::string("ThreadLink::") + names[api] + ": queued message differs";
      }
      if (!tl.hasNext()) return std::string("ThreadLink::") + names[api] + ": message following an " + (fits ? "accepted" : "oversized") + " one is missing";
      const char *r = tl.read();
      std::string want = refosc::encode("/z", "i", {[] { refosc::Val v; v.t = 'i'; v.u = 7; return v; }()});
      if (memcmp(r, want.data(), want.size())) return std::string("ThreadLink::") + names[api] + ": oversized message (" + std::to_string(ref.size()) + " > MaxMsg " + std::to_string(maxmsg) + ") was not dropped whole: next read is not the following message";
      if (tl.hasNext()) return std::string("ThreadLink::") + names[api] + ": spurious extra message";
    }
    ctx.count(ref.size() <= maxmsg ? "threadlink.fits" : "threadlink.oversized");
    ctx.nontriv(vf::mix(vf::fnv(ref), (uint64_t)c.tl_maxmsg));
    return "";
  }
  // kind 3: RtData::reply / broadcast (path, args, ...) hand reply(const char*) a whole message or an empty buffer
  {
    const std::string ref = c.m.ref();
    for (int which = 0; which < 2; which++) {
      Cap d;
      if (c.m.tags == "s") { if (which) d.broadcast(c.m.address.c_str(), "s", c.m.vals[0].s.c_str()); else d.reply(c.m.address.c_str(), "s", c.m.vals[0].s.c_str()); }
      else { if (which) d.broadcast(c.m.address.c_str(), "si", c.m.vals[0].s.c_str(), (int)(uint32_t)c.m.vals[1].u); else d.reply(c.m.address.c_str(), "si", c.m.vals[0].s.c_str(), (int)(uint32_t)c.m.vals[1].u); }
      if (d.got.size() != 1) return "RtData: expected exactly one forwarded message";
      bool fits = ref.size() <= 8192;
      if (fits && d.got[0] != ref) return std::string(which ? "broadcast" : "reply") + ": fitting message (" + std::to_string(ref.size()) + " bytes) not forwarded intact";
      if (!fits) {
        for (char ch : d.got[0]) if (ch) return std::string(which ? "broadcast" : "reply") + ": oversized message forwarded partially";
      }
    }
    ctx.count(ref.size() <= 8192 ? "rtdata.fits" : "rtdata.oversized");
    ctx.nontriv(vf::fnv(ref));
    return "";
  }
}
std::string vf_enumerate(vf::Ctx &, int, int, long) { return ""; }
VF_MAIN(Case)
