"""Extra engines for ./check: libFuzzer campaigns (C07) and the C06 scheduler/TSan pair."""
import os, shutil, subprocess

def register(chk):
    def libfuzzer(pid, exe, cfg, seed, env, outdir, ex):
        futs = []
        seeded = os.path.join(outdir, "seed-corpus")
        os.makedirs(seeded, exist_ok=True)
        subprocess.run([exe, "--mkcorpus", seeded], stdout=subprocess.DEVNULL, stderr=subprocess.DEVNULL, env=env)
        for w in range(cfg["workers"]):
            corpus = os.path.join(outdir, "corpus-%d" % w)
            if w % 2 == 0:
                shutil.copytree(seeded, corpus)
            else:
                os.makedirs(corpus, exist_ok=True)
            wseed = seed * 1000 + w + 1
            e2 = dict(env, VERIF_OUT=outdir, VERIF_WORKER=str(w))
            cmd = [exe, corpus, "-seed=%d" % wseed, "-runs=%d" % cfg["runs"], "-max_total_time=%d" % cfg["seconds"],
                   "-max_len=513", "-timeout=8", "-rss_limit_mb=3000", "-artifact_prefix=%s/art-fuzz-%d-" % (outdir, w),
                   "-print_final_stats=1", "-verbosity=0", "-use_value_profile=1"]
            futs.append(("fuzz", w, ex.submit(chk.run_proc, cmd, e2, cfg["seconds"] + 120, os.path.join(outdir, "log-fuzz-%d.txt" % w))))
        nw = cfg.get("enum_workers", 0)
        for w in range(nw):
            e2 = dict(env, VERIF_OUT=outdir)
            cmd = [exe, "--enum", str(w), str(nw), str(cfg["enum_free_bytes"])]
            futs.append(("enum", w, ex.submit(chk.run_proc, cmd, e2, 3000, os.path.join(outdir, "log-enum-%d.txt" % w))))
        return futs
    chk.ENGINES["libfuzzer"] = libfuzzer
