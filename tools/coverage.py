#!/usr/bin/env python3
"""Line coverage of fundamental/rtosc under the generators (a measuring tool, not a registered check).
usage: tools/coverage.py [Cnn ...] [--cases N]   -> out/coverage/<Cnn>.txt (per-file summary + uncovered lines of the
files the property is anchored in) and out/coverage/ALL.txt (union over the properties run).
Builds the library and each harness once more with -fprofile-instr-generate -fcoverage-mapping (no sanitizers), runs one
rapidcheck worker with N cases (C07: libFuzzer -runs=20*N) and merges the profiles."""
import sys, os, json, subprocess, shutil, importlib.machinery, importlib.util
HERE = os.path.dirname(os.path.dirname(os.path.abspath(__file__)))
loader = importlib.machinery.SourceFileLoader("vcheck", os.path.join(HERE, "check"))
spec = importlib.util.spec_from_loader("vcheck", loader)
C = importlib.util.module_from_spec(spec)
sys.argv_saved = sys.argv
sys.argv = ["check", "none"]
loader.exec_module(C)
sys.argv = sys.argv_saved

args = [a for a in sys.argv[1:] if not a.startswith("--")]
cases = 3000
if "--cases" in sys.argv: cases = int(sys.argv[sys.argv.index("--cases") + 1]); args = [a for a in args if a != str(cases)]
pids = args or sorted(C.P)
C.CONFIGS["cov"] = "-O0 -g -fprofile-instr-generate -fcoverage-mapping"
C.CONFIGS["covfuzz"] = "-O0 -g -fprofile-instr-generate -fcoverage-mapping -fsanitize=fuzzer-no-link"
th = C.tree_hash()
out = os.path.join(HERE, "out", "coverage")
os.makedirs(out, exist_ok=True)
known = json.load(open(os.path.join(HERE, "known_findings.json")))["findings"]
props = {}
for l in open(os.path.join(HERE, "properties.jsonl")):
    d = json.loads(l); props[d["id"]] = d
allprof, allexe = [], []
for pid in pids:
    p = C.P[pid]
    cfg = "covfuzz" if p["engine"] == "libfuzzer" else "cov"
    exe = C.build_harness(pid, th, cfg=cfg)
    work = os.path.join(out, "work-" + pid)
    shutil.rmtree(work, ignore_errors=True); os.makedirs(work)
    raw = os.path.join(work, "p.profraw")
    armed = [f["class"] for f in known if f["property"] == pid and f["status"] == "known"]
    env = dict(C.RUN_ENV, LLVM_PROFILE_FILE=raw, VERIF_KNOWN=",".join(armed), RC_PARAMS="seed=7 max_success=%d max_size=100" % cases)
    if p["engine"] == "libfuzzer":
        corpus = os.path.join(work, "corpus"); os.makedirs(corpus)
        subprocess.run([exe, "--mkcorpus", corpus], env=env, stdout=subprocess.DEVNULL, stderr=subprocess.DEVNULL)
        cmd = [exe, "-runs=%d" % (cases * 20), "-seed=7", "-max_len=512", corpus]
    else:
        cmd = [exe, "--gen", "--out", work, "--worker", "0", "--nworkers", "1"]
    r = subprocess.run(cmd, env=env, stdout=subprocess.PIPE, stderr=subprocess.STDOUT, text=True, timeout=3600)
    if not os.path.exists(raw):
        print(pid, "no profile written (rc=%d)" % r.returncode); print(r.stdout[-600:]); continue
    prof = os.path.join(work, "p.profdata")
    subprocess.run(["llvm-profdata-14", "merge", "-o", prof, raw], check=True)
    os.remove(raw)
    allprof.append(prof); allexe.append(exe)
    files = [os.path.join(C.REPO, f) for f in props[pid].get("anchors", props[pid]).get("files", [])] if isinstance(props[pid].get("anchors"), dict) else []
    if not files:
        files = [os.path.join(C.REPO, f) for f in props[pid].get("files", [])]
    rep = subprocess.run(["llvm-cov-14", "report", exe, "-instr-profile=" + prof] + [os.path.join(C.REPO, "src"), os.path.join(C.REPO, "include")], stdout=subprocess.PIPE, stderr=subprocess.STDOUT, text=True).stdout
    txt = "== %s: %d cases, rc=%d\n%s\n" % (pid, cases, r.returncode, rep)
    for f in files:
        if not os.path.exists(f): continue
        sh = subprocess.run(["llvm-cov-14", "show", exe, "-instr-profile=" + prof, f, "-show-line-counts-or-regions=false", "-use-color=false"], stdout=subprocess.PIPE, stderr=subprocess.STDOUT, text=True).stdout
        unc = [l for l in sh.splitlines() if "|      0|" in l]
        txt += "-- uncovered lines in %s (%d)\n%s\n" % (os.path.relpath(f, C.REPO), len(unc), "\n".join(unc))
    open(os.path.join(out, pid + ".txt"), "w").write(txt)
    tot = [l for l in rep.splitlines() if l.startswith("TOTAL")]
    print(pid, tot[0] if tot else "?")
if allprof:
    prof = os.path.join(out, "all.profdata")
    subprocess.run(["llvm-profdata-14", "merge", "-o", prof] + allprof, check=True)
    objs = []
    for e in allexe[1:]: objs += ["-object", e]
    rep = subprocess.run(["llvm-cov-14", "report", allexe[0]] + objs + ["-instr-profile=" + prof, os.path.join(C.REPO, "src"), os.path.join(C.REPO, "include")], stdout=subprocess.PIPE, stderr=subprocess.STDOUT, text=True).stdout
    txt = rep + "\n"
    srcs = []
    for base in ("src", "include"):
        for root, dirs, fs in os.walk(os.path.join(C.REPO, base)):
            for f in sorted(fs):
                if f.endswith((".c", ".cpp", ".h")): srcs.append(os.path.join(root, f))
    for f in sorted(srcs):
        sh = subprocess.run(["llvm-cov-14", "show", allexe[0]] + objs + ["-instr-profile=" + prof, f, "-use-color=false"], stdout=subprocess.PIPE, stderr=subprocess.STDOUT, text=True).stdout
        unc = [l for l in sh.splitlines() if "|      0|" in l]
        if unc: txt += "-- uncovered lines in %s (%d)\n%s\n" % (os.path.relpath(f, C.REPO), len(unc), "\n".join(unc))
    open(os.path.join(out, "ALL.txt"), "w").write(txt)
    print(rep[-1500:])
