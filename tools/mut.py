#!/usr/bin/env python3
"""Sensitivity helper: apply one literal replacement to a scratch copy of /repo and run a check on it.
usage: tools/mut.py <Cnn> <relative file> <old literal> <new literal> [tier]
Prints KILLED / SURVIVED. The scratch copy is removed afterwards."""
import sys, os, shutil, subprocess, tempfile
pid, rel, old, new = sys.argv[1:5]
tier = sys.argv[5] if len(sys.argv) > 5 else "quick"
d = tempfile.mkdtemp(prefix="rtosc-mut-")
evp = "/verif/evidence/%s.json" % pid
evsave = open(evp).read() if os.path.exists(evp) else None
try:
    for sub in ("src", "include", "CMakeLists.txt"):
        s = os.path.join("/repo", sub)
        if os.path.isdir(s): shutil.copytree(s, os.path.join(d, sub))
        else: shutil.copy(s, os.path.join(d, sub))
    p = os.path.join(d, rel)
    t = open(p).read()
    n = t.count(old)
    if n != 1:
        print("MUTATION NOT APPLIED: %d matches" % n); sys.exit(2)
    open(p, "w").write(t.replace(old, new))
    env = dict(os.environ, VERIF_REPO=d)
    r = subprocess.run(["/verif/check", pid, "--tier", tier], env=env, stdout=subprocess.PIPE, stderr=subprocess.STDOUT, text=True, cwd="/verif")
    out = r.stdout.strip().splitlines()
    print("\n".join(out[-4:]))
    print("KILLED" if r.returncode == 1 and any(l.startswith("VIOLATION") for l in out) else ("SURVIVED rc=%d" % r.returncode))
finally:
    shutil.rmtree(d, ignore_errors=True)
    # restore evidence from the real tree on next run; drop scratch build output
    if evsave is not None: open(evp, "w").write(evsave)
    elif os.path.exists(evp): os.remove(evp)
