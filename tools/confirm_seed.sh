#!/bin/bash
# usage: confirm_seed.sh <seed dir with patch.diff build.sh> ; prints CONFIRMED or reason
d=$1; name=$(basename $d); wt=/tmp/confirm-$name
git -C /repo worktree add -q --detach $wt HEAD || exit 2
trap "git -C /repo worktree remove --force $wt" EXIT
git -C $wt apply $d/patch.diff || { echo "$name: PATCH DOES NOT APPLY"; exit 1; }
(cmake -G Ninja -B $wt/_build -S $wt -DCMAKE_BUILD_TYPE=RelWithDebInfo >/dev/null 2>&1 && cmake --build $wt/_build >/dev/null 2>&1) || { echo "$name: BUILD FAILS"; exit 1; }
t=$(ctest --test-dir $wt/_build -j8 2>&1 | grep "tests passed")
echo "$name: ctest: $t"
case "$t" in "100% tests passed, 0 tests failed out of 31") ;; *) echo "$name: TESTS FAIL"; exit 1;; esac
(cd $d && bash build.sh $wt >/tmp/confirm-$name.with.log 2>&1); with=$?
git -C $wt checkout -- . 
(cd $d && bash build.sh $wt >/tmp/confirm-$name.without.log 2>&1); without=$?
echo "$name: demo with change rc=$with, without rc=$without"
if [ $with -ne 0 ] && [ $without -eq 0 ]; then echo "$name: CONFIRMED"; else echo "$name: NOT CONFIRMED"; fi
