#!/bin/bash
# build + ctest in /repo/_build, commit only when all 31 tests pass. usage: repo_commit.sh "<message>"
cd /repo || exit 2
cmake --build _build >/tmp/repo_build.log 2>&1 || { tail -20 /tmp/repo_build.log; echo "BUILD FAILED - not committed"; exit 1; }
t=$(ctest --test-dir _build -j8 2>&1 | grep "tests passed")
echo "$t"
case "$t" in "100% tests passed, 0 tests failed out of 31") git commit -qam "$1" && git log --oneline | head -1;; *) echo "TESTS FAIL - not committed"; exit 1;; esac
