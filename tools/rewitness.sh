#!/bin/bash
# usage: rewitness.sh <Cnn> <fix-commit> <dest case file> : revert one fix in a scratch copy, run the check, keep the violation file as witness
pid=$1; commit=$2; dest=$3
d=$(mktemp -d /tmp/rtosc-rew-XXXX)
cp -r /repo/src /repo/include /repo/CMakeLists.txt $d/
git -C /repo show $commit -- src include | patch -R -p1 -s -d $d || { echo "revert failed"; rm -rf $d; exit 1; }
out=$(VERIF_REPO=$d /verif/check $pid --tier quick 2>&1 | grep "^VIOLATION" | grep -v regress | head -1)
rm -rf $d
f=$(echo "$out" | sed 's/.*replay=//')
if [ -n "$f" ] && [ -f "$f" ]; then cp "$f" "$dest"; echo "witness: $dest"; head -3 "$dest" | cut -c1-200; else echo "no violation found: $out"; fi
true
