#!/usr/bin/env python3
"""tools/keep_seed.py <seed-out dir> <Cnn> <DETECTED|MISSED> [check-used]: copy a confirmed seeded change to /verif/seeded/<id>/ with meta.json"""
import sys, os, shutil, json, glob
src, pid, verdict = sys.argv[1:4]
chk = sys.argv[4] if len(sys.argv) > 4 else "./check %s --tier quick" % pid
name = os.path.basename(src.rstrip("/"))
dst = os.path.join("/verif/seeded", name)
os.makedirs(dst, exist_ok=True)
for f in os.listdir(src):
    if os.path.isfile(os.path.join(src, f)) and os.path.getsize(os.path.join(src, f)) < 200000 and not f.endswith((".o", ".a")) and os.access(os.path.join(src, f), os.R_OK):
        if f in ("patch.diff", "build.sh", "notes.txt") or f.startswith("demo"):
            shutil.copy(os.path.join(src, f), dst)
notes = open(os.path.join(src, "notes.txt")).read() if os.path.exists(os.path.join(src, "notes.txt")) else ""
conf = open(src.rstrip("/") + ".confirm").read() if os.path.exists(src.rstrip("/") + ".confirm") else ""
meta = {"id": name, "property": pid, "origin": "independent sub-agent given only the property text and a scratch worktree",
        "needs_to_manifest": notes.strip(),
        "confirmed_by": "tools/confirm_seed.sh: scratch worktree of /repo HEAD, patch applied, cmake build, ctest 31/31 pass, demo fails with / passes without the change",
        "confirmation_log": conf.strip().splitlines(),
        "check_run": "tools/seed.py %s/patch.diff %s  (scratch copy of /repo with the patch, %s)" % (dst, pid, chk),
        "verdict": verdict}
json.dump(meta, open(os.path.join(dst, "meta.json"), "w"), indent=1)
print("kept", dst)
