#!/usr/bin/env python3
"""Run a check against a seeded change: tools/seed.py <patch.diff> <Cnn> [tier]. Uses a scratch copy of /repo (removed afterwards)."""
import sys, os, shutil, subprocess, tempfile
patch, pid = sys.argv[1:3]
tier = sys.argv[3] if len(sys.argv) > 3 else "quick"
d = tempfile.mkdtemp(prefix="rtosc-seed-")
evp = "/verif/evidence/%s.json" % pid
evsave = open(evp).read() if os.path.exists(evp) else None
try:
    for sub in ("src", "include", "CMakeLists.txt"):
        s = os.path.join("/repo", sub)
        if os.path.isdir(s): shutil.copytree(s, os.path.join(d, sub))
        else: shutil.copy(s, os.path.join(d, sub))
    r = subprocess.run(["patch", "-p1", "-s", "-d", d, "-i", os.path.abspath(patch)], stdout=subprocess.PIPE, stderr=subprocess.STDOUT, text=True)
    if r.returncode != 0:
        print("PATCH FAILED", r.stdout); sys.exit(2)
    env = dict(os.environ, VERIF_REPO=d)
    r = subprocess.run(["/verif/check", pid, "--tier", tier], env=env, stdout=subprocess.PIPE, stderr=subprocess.STDOUT, text=True, cwd="/verif")
    out = r.stdout.strip().splitlines()
    print("\n".join(out[-3:]))
    print("%s %s: %s" % (os.path.dirname(patch), pid, "DETECTED" if r.returncode == 1 and any(l.startswith("VIOLATION") for l in out) else ("MISSED rc=%d" % r.returncode)))
finally:
    shutil.rmtree(d, ignore_errors=True)
    if evsave is not None: open(evp, "w").write(evsave)
    elif os.path.exists(evp): os.remove(evp)
